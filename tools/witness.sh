#!/bin/bash
# usage: witness.sh <witness_test.go> [repo]   — injects a hand-checked witness test into the package with -overlay and runs it
set -u
W=$(realpath "$1"); REPO=${2:-/repo}
PKG=$(sed -n 's/^package \([a-z_]*\).*/\1/p' "$W" | head -1)
DIR=$REPO
case "$PKG" in ucfg|ucfg_test) DIR=$REPO;; *) DIR=$REPO/${PKG%_test};; esac
T=$(mktemp -d); trap 'rm -rf $T' EXIT
printf '{"Replace": {"%s/zz_verif_witness_test.go": "%s"}}' "$DIR" "$W" > $T/ov.json
RUN=$(sed -n 's/^func \(Test[A-Za-z0-9_]*\).*/\1/p' "$W" | paste -sd'|')
cd "$DIR" && GOFLAGS=-mod=mod GOPROXY=off GOSUMDB=off GOTOOLCHAIN=local go test -tags verif -overlay $T/ov.json -vet=off -count=1 -timeout 60s -run "^($RUN)\$" -v . 2>&1 | grep -E "WITNESS|^--- |^(ok|FAIL|PASS)|panic" | head -40

#!/bin/bash
# Engine self-test: every patch in selftest/mustfail (named <property>__<what>.patch) must turn the property's
# check red (exit 1) on a scratch copy of /repo; every patch in selftest/mustpass (harmless edits) must stay green.
# Also runs the confirmed seeded changes listed in seeded/EXPECTED (those the checks are known to catch).
set -u
cd /verif
FILTER=${1:-}
fail=0
run() { # kind patch prop expect
  set -- "$1" "$(realpath $2)" "$3" "$4"
  local S; S=$(mktemp -d /tmp/st-XXXXXX); cp -r /repo/. $S/; rm -rf $S/.git
  if ! (cd $S && patch -p1 -s < $2 >/dev/null 2>&1); then echo "SELFTEST-ERROR $2: patch does not apply"; rm -rf $S; fail=1; return; fi
  if ! (cd $S && GOFLAGS=-mod=mod GOPROXY=off GOSUMDB=off go build ./... >/dev/null 2>&1); then echo "SELFTEST-ERROR $2: does not compile"; rm -rf $S; fail=1; return; fi
  ./bin/ucfgvc check $3 --repo $S --no-evidence > $S/.out 2>&1; local rc=$?
  local want; want=$(basename $2 .patch | sed -n 's/.*@//p')
  if [ $rc = $4 ] && [ -n "$want" ] && [ $4 = 1 ] && ! grep "^failed obligation" $S/.out | grep -q "$want"; then
    echo "BAD  $1 $3 $(basename $2): red, but no failed obligation in $want: $(grep -m1 '^failed obligation' $S/.out | cut -c19-110)"; fail=1
  elif [ $rc = $4 ]; then echo "ok   $1 $3 $(basename $2) (exit $rc) $(grep '^failed obligation' $S/.out | grep -m1 "$want" | cut -c19-110)"; else echo "BAD  $1 $3 $(basename $2): exit $rc, expected $4"; grep -m3 "TOOL-ERROR\|^failed" $S/.out; fail=1; fi
  rm -rf $S
}
for p in selftest/mustfail/*.patch; do [ -f "$p" ] || continue; case "$p" in *"$FILTER"*) ;; *) continue;; esac
  prop=$(basename $p | sed 's/__.*//'); run mustfail $p $prop 1; done
for p in selftest/mustpass/*.patch; do [ -f "$p" ] || continue; case "$p" in *"$FILTER"*) ;; *) continue;; esac
  prop=$(basename $p | sed 's/__.*//'); run mustpass $p $prop 0; done
if [ -f seeded/EXPECTED ]; then while read id prop; do [ -z "$id" ] && continue; case "$id" in \#*) continue;; esac; case "$id" in *"$FILTER"*) ;; *) continue;; esac
  run seeded seeded/$id/patch.diff $prop 1; done < seeded/EXPECTED; fi
exit $fail

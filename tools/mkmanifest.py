#!/usr/bin/env python3
"""Regenerates /verif/MANIFEST.json from the claim table below (keeps it valid and current)."""
import json, subprocess

TECH = "contract-based deductive verification: weakest-precondition VCs generated from go/ssa of /repo with //@ contracts, discharged by z3/cvc5"

# id -> (level text, level note / trusted base, design ref)
CLAIMS = {
 "C01": ("Function-modular proof, for all inputs and lengths, that the array part of a merge follows the selected policy: fields.setAt/append and the append/prepend/replace strategies satisfy sequence postconditions (A then B, B then A, B alone, empty B replaces nothing, length = sum, every stored element a fresh copy, dictionary untouched) with loop invariants and frames. Composition to whole trees is a stated induction over depth, not machine-checked.",
         "Assumes the interface contract of value.cpy (fresh copy), trusted fmt.Sprintf; self-merge (aliasing source/destination) excluded by requires; mergeValues/mergeConfigDict/dispatch not yet under contract (see evidence).", "6/C01"),
 "C02": ("Proof of the evaluator against the statement's lookup order and operator table: resolveRef returns the value found from the root of the owning tree first, then in the Env configurations most recently added first (loop invariant over the shrinking Env list, variant), resolveEnv consults the resolvers last to first, returns the first success and fails when none succeeds; the four operators (${x}, ${x:d}, ${x:+a}, ${x:?m}) and literals are proved over named sub-evaluation outcomes; cfgDynamic.cpy keeps the unevaluated expression (late binding across Merge).",
         "Sub-evaluations (varEvaler.eval, reference.eval/resolve, cfgPath.GetValue) are named by ghost functions of (expression or path string, configuration): assumed to be functions of these while one setting is read; the lexer/parser building the expression tree ($$ and $} escapes) and splice concatenation (bytes.Buffer) are not under contract; resolver callbacks are dynamic calls assumed not to touch library state.", "6/C02"),
 "C03": ("Bit-precise proof (64-bit vectors + IEEE-754 theory, loop-free so complete over the full domain) that the numeric conversion kernels return the exact value or an error: negative->unsigned, >MaxInt64->signed, NaN/out-of-range float->integer are errors, in-range results equal the mathematical value.",
         "Trusted: Go semantics of in-range float->int conversion (truncation), math.IsNaN contract, strconv for string sources; dispatch through reflect (doReifyPrimitive) is assumed, not proved.", "6/C03"),
 "C04": ("Proof of the validator kernels against the statement's table: validatePositive, validateNonZero, validateMin and validateMax accept exactly the values the tag promises for every signed, unsigned, float (64-bit vectors + IEEE-754: NaN, -0, extremes) and time.Duration value and every parameter string (bounds named by the strconv/ParseDuration contracts), param2Duration reads a bare number as seconds and a suffixed one as a duration, runValidators returns nil only if every validator of the tag list accepted the value and otherwise returns the first rejection (loop invariant over the list), and the list/array traversal reifyDoArray returns successfully only if every element it keeps from the pre-filled target (outside the window written from the configuration) passed the recursive validation (loop invariant over the index, for every start offset and length).",
         "Kernel level plus one traversal: that reifyStruct/reifyGetField/validateStruct/validateArray/validateMap reach every field and default (the rest of the traversal half of the statement, driven by reflect) is not under contract; the recursive validation of one element is named by a ghost function of its reflect handle (recValid), assumed stable while one container is traversed; validator callbacks are dynamic calls assumed not to modify library state (dynpure); reflect.ValueOf/Kind/Int/Uint/Float are trusted contracts over ghost anyKind/anyInt/anyUint/anyFloat; the float->Duration conversion of param2Duration is proved for products inside the int64 range only (rte.conv of that line not claimed: the parameter is a struct tag, not user input).", "6/C04"),
 "C06": ("Proof of the shared kernels of both directions and of the numeric leaves of the round trip: parseTags (name = text before the first comma; ignore and squash/inline set exactly when one of the later options says so; the merge policy is the default when no option names one and the last option's policy when it names one) and fieldName (tag name wins, otherwise the lower-cased field name) are proved for all strings with loop invariants; normalizeValue maps every signed kind to cfgInt (<= 0) or cfgUint (> 0), every unsigned kind to cfgUint and every float kind to cfgFloat holding exactly the reflect value; three ghost clients (lemmaC06Int64/Uint64/Float64, compiled only under the verif tag) compose normalizeValue with the conversion kernels of C03 and prove that the number read back is the number written.",
         "Leaf level only: normalizeStructInto/reifyStruct/accessField (field enumeration, inline, pointers, slices, arrays, maps - reflect driven) are not under contract; duration and regexp leaves depend on time.ParseDuration(d.String()) == d and regexp.Compile(r.String()), which would be pure assumptions; boxed-scalar kinds (axiom group boxkinds) and reflect accessors are trusted; chaseValue is proved only for non-pointer, non-interface values.", "6/C06"),
 "C07": ("Proof of absence of run-time errors in two tiers. (a) Fully annotated: the flag-value scanners of parse/parse.go, the splice lexer and parseVarExp, idxField.SetValue - index, slice, string index, nil dereference, type assertion, division, make, explicit panic, loop variants, callee preconditions at every call site, and the allocation bound of one setter call. (b) Zero-annotation sweep over 268 further functions of all packages (every function whose obligations discharge without any contract): their own index / slice / string-index / type-assertion / division / make / nil-map / explicit-panic sites and the preconditions of the reflect functions they call (Type.Out/In, Value.Index: rte.extern), generated from the SSA, with interval invariants of range and counting loops inferred and proved.",
         "Sweep functions: nil dereferences not claimed, callee preconditions assumed at their call sites; 13 functions are outside both tiers (normalize/normalizeValue/reifyInto/tryValidate type assertions on reflect results, cfgPath.SetValue, MustNewFrom and two panics by design, ...: see DESIGN.md section 12). Not decided: third-party decoders, goroutine leaks/channel protocol, reflect settability, stack depth, whole-program termination.", "6/C07"),
 "C08": ("Proof of the two safety halves: the set of references under evaluation is the fieldSet chain (recursive membership inChain proved for Has/Add/AddNew/newFieldSet); resolveRef reports a cyclic-reference error exactly when the path is already in the chain and registers it otherwise, without changing the scope pointer; reifyMap and cfgSub.reify restore opts.activeFields on every exit (deferred closure applied by contract at each return, through map-range and list loops). Termination is the stated meta-argument (finite set of paths, strictly growing chain).",
         "Not decided: termination itself; FlattenedKeys/CompareConfigs recursion; reifyStruct/doReifyPrimitive scoping; the chain is assumed acyclic; run-time errors of reifyMap/cfgSub.reify are not claimed (norte).", "6/C08"),
 "C10": ("Frame and freshness proofs for the array side of Merge: fields.append and the array strategies write only destination locations or fresh objects (frame obligation at every store and callee frame) and every stored element is a fresh copy.",
         "Dictionary side (mergeConfigDict), cfgSub.cpy and normalizeValue re-parenting not yet under contract; induction over depth stated.", "6/C10"),
 "C13": ("Proof of the all-or-nothing half on a reflect-storage model: a ghost memory holds a content version per storage root (the variable or object a reflect handle gives write access to); reifyStruct is proved, for every struct type, field count, tag combination and failure position, to leave the storage of the struct it was given at its entry version whenever it returns an error - it works on a copy allocated during the call (reflect.New, shown distinct from every storage that existed before), hands only handles rooted in that copy to the functions that convert, merge and validate, and writes the caller's struct by its final Set only (loop invariant over the fields). accessField is proved to return the handle of exactly the indexed field of the struct it was given, and parseTags (shared with C06) decides ignore/inline/merge policy as stated.",
         "The effect of the reflect-driven callees on reflect storage is ASSUMED (rvwrites summaries: reifyInto, reifyMergeValue, reifyGetField, unpackWith, tryInitDefaults, tryValidate write the storage behind the handle they are given, or storage reached through pointers/maps/slices, summarised by one root that is assumed distinct from the struct being unpacked - no self-referential target); user code called through interfaces may write any storage (havoc). Not decided: the first half of the statement (exactly the mentioned fields change, merge of lists/maps by policy: reifyGetField, reifyMergeValue, reifySliceMerge bodies are reflect code outside the subset), InitDefaults ordering.", "6/C13"),
 "C14": ("Proof that every error leaving the getters, Child, Has, CountField and Remove is nil or a value whose dynamic type implements ucfg.Error (static type Error by typing; raw errors from value methods, strconv or errors.New do not satisfy it), and that the raise sites of the numeric/bool/duration conversions and of the typed getters build the error from exactly the value at fault (about(err) == val), so the message names that setting's path and source.",
         "Trusted: the raise* constructors turn a value's context/metadata into path and source text (fmt); Merge/NewFrom/Unpack entry points and the validation/array-size raise sites are not yet under contract; that the context is the position is C15's invariant.", "6/C14"),
 "C15": ("Proof of the structural part of the representation invariant for copies: every value constructor stores the context it is given, every primitive cpy returns a fresh value of the same type with the requested context (refinement of the interface contract), and cfgSub.cpy returns a fresh node whose dictionary and list children are fresh copies whose parent is the new node and whose field names are those of the originals (loop invariants over a map range in arbitrary order and over the list).",
         "Known gaps (not claimed): delAt does not renumber, SetContext on a value receiver, FlattenedKeys, CompareConfigs and Path()/Parent() are not yet under contract; histories by stated induction.", "6/C15"),
 "C11": ("Purity as a frame condition, proved store by store: the typed getters, Child, Has, HasField, CountField, IsDict/IsArray, GetFields, Path/PathOf/Parent, getField, the path walkers (cfgPath.GetValue/Has, namedField/idxField.GetValue), the recursive context.path, and the closures through which a reference/splice forwards a conversion write nothing but objects allocated during the call (and, for the closures, their captured result variables); a merge leaves the source dictionary untouched (mergeConfigDict#source_untouched). Race-freedom of concurrent readers is the stated corollary (every write is to call-local or fresh memory), not machine-checked.",
         "Interface methods value.to*/Len/toConfig/Context are assumed pure with respect to configurations (evaluation of dynamic values writes only the per-call options object: cache and active set); Unpack (reify.go), FlattenedKeys and cfgDynamic.getValue/withValue are not under contract; no interleaving semantics in the generator.", "6/C11"),
 "C12": ("Data structure against abstract view: fields.get/set/del/setAt/delAt with full-view postconditions and frames, address parsing (parsePath/parsePathIdx/parseField: at least one field, one field per segment) and the walkers cfgPath.Has/GetValue, idxField.GetValue, proved for all inputs; induction over operation histories is stated.",
         "strings.Split contract trusted (ghost splitLen/splitAt); cfgPath.SetValue/Remove and typed getters/setters not yet under contract.", "6/C12"),
 "C16": ("Proof over a trie view of the field-handling tree: fieldHandlingTree.fieldHandling equals the recursive lookup specification of the statement (exact child with a policy wins, otherwise continue below the ** wildcard, otherwise no named policy), and fieldOptsOverride returns options that carry the named policy exactly when the key is on a named path, keep the global policy otherwise, descend into the right sub-tree and leave every other option untouched. One known finding (sub-tree not emptied below an unnamed key) is listed with its failing region; outside that region the clause discharges.",
         "Trusted: the two accessors child/configHandling implement the trie view (they read a Config through Child/Uint), includeWildcard (summarised by a ghost function), makeFieldOptValueHandling (name -> name.* table) not yet under contract.", "6/C16"),
 "C19": ("Proof of the collector state machine: NewCollector stores config, nil error and the flag's options; Collector.Add keeps the first error (state unchanged afterwards), records a failing argument, otherwise performs exactly one Merge of the argument with the collector's options.",
         "(*Config).Merge is used by its (trusted) contract here and is the subject of C01; the flag loader closures are not yet under contract; the fold over a sequence of Set calls is a stated induction.", "6/C19"),
 "C20": ("Proof for all strings, all MaxIdx and both EnableNumKeys settings that parseField yields an index exactly when numeric keys are not enabled and the segment parses (strconv.ParseInt base 0, trusted) to an integer in [0, MaxIdx], otherwise the unchanged name; parsePath produces one field per segment and disables numeric keys for multi-segment paths.",
         "strconv.ParseInt and strings.Split are assumed contracts (ghost parsesInt/intOf/splitLen); the allocation bound of setAt via setter index arguments is not yet an obligation.", "6/C20"),
}

NA = {
 "C05": "normalizer is a reflection-driven interpreter of arbitrary Go values; 'same canonical tree for every representation' needs a denotational spec of reflect values and induction over all Go types - no contract within reach of an SSA/SMT generator (kernels it shares are proved under C06/C15/C20/C01)",
 "C09": "2-safety property over the runtime's map iteration order; follows only from deterministic functional postconditions of whole NewFrom/Merge/Unpack, which are out of reach; map-range loops that are proved are proved for an arbitrary visiting order (by-product, not a claim)",
 "C17": "language-level equivalence of a hand-written recursive-descent parser with JSON over all texts needs induction over the grammar with string theory and strconv semantics; only the parser's memory safety and termination are in reach and are decided under C07",
 "C18": "agreement of three third-party decoders (yaml.v2, encoding/json, hjson-go) - their contracts would be pure assumptions; the in-repo part is three three-line wrappers; the source-metadata clause belongs to C14",
}
PENDING = "contracts for this property are not yet written/discharged in the engine's subset (work in progress; not claimed on a thinner basis)"
ALL = ["C%02d" % i for i in range(1, 21)]

def main():
    commits = subprocess.run(["git", "-C", "/repo", "log", "--format=%h", "--grep=^verif:"], capture_output=True, text=True).stdout.split()
    checks = []
    for pid in sorted(CLAIMS):
        text, note, ref = CLAIMS[pid]
        checks.append({
            "property_id": pid,
            "quick_cmd": "./bin/ucfgvc check %s --tier quick" % pid,
            "thorough_cmd": "./bin/ucfgvc check %s --tier thorough" % pid,
            "evidence_file": "/verif/evidence/%s.json" % pid,
            "replay_cmd_template": "./bin/ucfgvc replay {path}",
            "engine": "ucfgvc",
            "level_claimed": {"category": "proof", "text": text, "design_ref": "DESIGN.md section " + ref},
            "level_note": note,
            "technique": TECH,
        })
    na = []
    for pid in ALL:
        if pid in CLAIMS:
            continue
        na.append({"property_id": pid, "reason": NA.get(pid, PENDING)})
    m = {
        "version": 1,
        "setup_cmd": "cd /verif/engine && GOFLAGS=-mod=vendor GOPROXY=off GOSUMDB=off GOTOOLCHAIN=local go build -o /verif/bin/ucfgvc .",
        "hooks": {
            "guard": "verif",
            "enable": "go build -tags verif (the only hook files are comment-only contracts_verif.go and ghost_verif.go per package; checks load /repo with packages.Load -tags=verif)",
            "baseline_off_cmd": "cd /repo && GOFLAGS=-mod=mod GOPROXY=off GOSUMDB=off go test -vet=off -count=1 -timeout 25m ./...",
            "source_commits": commits,
            "add_only": True,
        },
        "engines": [{"name": "ucfgvc", "path": "/verif/engine", "serves_properties": sorted(CLAIMS), "kind_free_text": "self-written verification-condition generator for Go (go/packages + go/ssa x/tools v0.29.0): symbolic execution of the SSA of every function under contract, loops cut at invariants, calls replaced by contracts; one SMT-LIB file per named obligation; z3 5.1.0 / z3 4.8.12 / cvc5 1.0 race; counterexamples replayed on the real code via go test -overlay"}],
        "checks": checks,
        "not_applicable": na,
        "notes": "Exit codes: 0 = every obligation of the property discharged (known findings printed as KNOWN-FINDING lines), 1 = VIOLATION line(s), 2 = tool error (never a VIOLATION). Known findings: /verif/known_findings.json.",
    }
    json.dump(m, open("/verif/MANIFEST.json", "w"), indent=1)
    open("/verif/MANIFEST.json", "a").write("\n")

main()

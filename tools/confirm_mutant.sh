#!/bin/bash
# usage: confirm_mutant.sh <dir with patch.diff demo_test.go README.md> <property> <name>
# Confirms in a scratch worktree of /repo HEAD: patch applies, suite passes with it, demo fails with it and passes without.
set -u
SRC=$1; PROP=$2; NAME=$3
export GOFLAGS=-mod=mod GOPROXY=off GOSUMDB=off GOTOOLCHAIN=local
WT=$(mktemp -d /tmp/cm-XXXXXX); rmdir $WT
git -C /repo worktree add --detach $WT HEAD >/dev/null 2>&1 || { echo "worktree failed"; exit 2; }
cleanup() { git -C /repo worktree remove --force $WT >/dev/null 2>&1; rm -rf $WT; }
trap cleanup EXIT
cd $WT
if ! git apply $SRC/patch.diff 2>/tmp/cm-err; then echo "RESULT $PROP-$NAME: patch does not apply: $(head -2 /tmp/cm-err)"; exit 1; fi
if ! go build ./... ; then echo "RESULT $PROP-$NAME: does not compile"; exit 1; fi
SUITE=$(go test -vet=off -count=1 ./... 2>&1)
if echo "$SUITE" | grep -q "^FAIL\|^---  FAIL\|panic:"; then echo "RESULT $PROP-$NAME: suite FAILS with patch"; echo "$SUITE" | grep -v "^ok" | head; exit 1; fi
PLACE=$(head -1 $SRC/demo_test.go | sed -n 's|^// place at: *||p' | tr -d ' \r')
[ -z "$PLACE" ] && PLACE=zz_demo_test.go
cp $SRC/demo_test.go $WT/$PLACE
PKGDIR=$(dirname $PLACE)
TESTS=$(sed -n 's/^func \(Test[A-Za-z0-9_]*\)(.*/\1/p' $SRC/demo_test.go | paste -sd'|')
WITH=$(cd $WT/$PKGDIR && go test -vet=off -count=1 -run "^($TESTS)\$" . 2>&1 | tail -3)
rm -f $WT/$PLACE; git apply -R $SRC/patch.diff; cp $SRC/demo_test.go $WT/$PLACE
WITHOUT=$(cd $WT/$PKGDIR && go test -vet=off -count=1 -run "^($TESTS)\$" . 2>&1 | tail -3)
W1=bad; echo "$WITH" | grep -q "^FAIL" && W1=fails
W2=bad; echo "$WITHOUT" | grep -q "^ok" && W2=passes
echo "RESULT $PROP-$NAME: applies, suite passes, demo-with-patch=$W1, demo-without=$W2"
if [ $W1 = fails ] && [ $W2 = passes ]; then
  D=/verif/seeded/$PROP-$NAME; mkdir -p $D
  cp $SRC/patch.diff $D/patch.diff; cp $SRC/demo_test.go $D/demo_test.go; [ -f $SRC/README.md ] && cp $SRC/README.md $D/README.md
  python3 - "$D" "$PROP" "$NAME" "$PLACE" "$TESTS" <<'PY'
import json,sys,os,subprocess
d,prop,name,place,tests=sys.argv[1:6]
readme=open(os.path.join(d,'README.md')).read() if os.path.exists(os.path.join(d,'README.md')) else ''
files=[l[6:].strip() for l in open(os.path.join(d,'patch.diff')) if l.startswith('+++ b/')]
head=subprocess.run(['git','-C','/repo','rev-parse','--short','HEAD'],capture_output=True,text=True).stdout.strip()
meta={"id":prop+"-"+name,"breaks_property":prop,"files_changed":files,"demo_place":place,"demo_tests":tests.split('|'),
 "needs_to_manifest":"see README.md (written by the independent sub-agent that produced the change)",
 "confirmed":{"repo_head":head,"patch_applies":True,"suite_passes_with_patch":True,"demo_fails_with_patch":True,"demo_passes_without_patch":True,
 "commands":["git apply patch.diff","go test -vet=off -count=1 ./...","go test -run '^(%s)$' . (with patch: FAIL; reverted: ok)"%tests]},
 "origin":"fresh sub-agent given only the property text and a scratch worktree"}
json.dump(meta,open(os.path.join(d,'meta.json'),'w'),indent=1)
PY
  exit 0
fi
echo "--- with patch:"; echo "$WITH"; echo "--- without:"; echo "$WITHOUT"
exit 1

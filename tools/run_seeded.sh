#!/bin/bash
# usage: run_seeded.sh [seeded-id ...]   — runs the claimed checks of each seeded change's property (and with ALL=1 every claimed
# property) on a scratch copy of /repo with the change applied; prints one line per (change, property). Scratch copies are removed.
set -u
cd /verif
IDS=${@:-$(ls /verif/seeded | grep -v '\.md$')}
CLAIMED=$(python3 -c "import json; print(' '.join(c['property_id'] for c in json.load(open('/verif/MANIFEST.json'))['checks']))")
for id in $IDS; do
  D=/verif/seeded/$id; [ -f $D/patch.diff ] || continue
  PROP=$(python3 -c "import json; print(json.load(open('$D/meta.json'))['breaks_property'])")
  S=$(mktemp -d /tmp/mr-XXXXXX)
  cp -r /repo/. $S/ && rm -rf $S/.git
  if ! (cd $S && patch -p1 -s < $D/patch.diff); then echo "$id: patch does not apply"; rm -rf $S; continue; fi
  PROPS=$PROP; [ "${ALL:-0}" = 1 ] && PROPS=$CLAIMED
  for p in $PROPS; do
    if ! echo " $CLAIMED " | grep -q " $p "; then echo "$id $p: not claimed"; continue; fi
    OUT=$(./bin/ucfgvc check $p --repo $S --no-evidence 2>&1); RC=$?
    N=$(echo "$OUT" | grep -c "^VIOLATION")
    FIRST=$(echo "$OUT" | grep "^failed obligation" | head -2 | sed 's/^failed obligation: //' | cut -c1-110 | paste -sd';')
    R=$(echo "$OUT" | grep -c "^VIOLATION.*json$")
    echo "$id $p: exit=$RC violations=$N reproduced=$R $FIRST"
    [ $RC = 2 ] && echo "$OUT" | grep TOOL-ERROR | head -3
  done
  rm -rf $S
done

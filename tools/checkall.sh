#!/bin/bash
# runs the quick command of every claimed check; prints one line each; exit 1 if any is not green
cd /verif; rc=0
for p in $(python3 -c "import json; print(' '.join(c['property_id'] for c in json.load(open('/verif/MANIFEST.json'))['checks']))"); do
  out=$(./bin/ucfgvc check $p --tier ${1:-quick} 2>&1); r=$?; echo "$(echo "$out" | tail -1) exit=$r"; [ $r != 0 ] && { rc=1; echo "$out" | grep "^failed\|TOOL-ERROR" | head -5; }
done; exit $rc

#!/usr/bin/env python3
"""usage: UCFGVC_PROBE_PRE=1 ./bin/ucfgvc check C07 --no-evidence > probe.out; tools/apply_probe.py probe.out
Adds `//@ checks-pre <callee> ...` to every sweep function of /repo for the callees whose precondition obligations all
discharged at every call site in that function (the sweep tier assumes callee preconditions otherwise)."""
import sys, collections, re, glob, os
MOD = 'github.com/elastic/go-ucfg'
d = collections.defaultdict(list)
for l in open(sys.argv[1]):
    if not l.startswith('PROBE '): continue
    _, st, fn, kind = l.split()[:4]
    m = re.match(r'^\(\*?' + re.escape(MOD) + r'(/[\w/]+)?\.', fn) or re.match(r'^' + re.escape(MOD) + r'(/[\w/]+)?\.', fn)
    pkg = (m.group(1) or '').lstrip('/')
    name = fn.replace(MOD + ('/' + pkg if pkg else '') + '.', '', 1)
    d[(pkg, name, kind[4:])].append(st)
ok = collections.defaultdict(set)
for (pkg, name, callee), sts in d.items():
    if all(s == 'unsat' for s in sts): ok[(pkg, name)].add(callee)
n = 0
for f in glob.glob('/repo/*_verif.go') + glob.glob('/repo/*/*_verif.go'):
    pkg = os.path.dirname(f)[len('/repo'):].lstrip('/')
    lines = open(f).read().split('\n'); out = []; i = 0
    while i < len(lines):
        out.append(lines[i]); m = re.match(r'^//@ func (\S.*?)(\s+::.*)?$', lines[i]); i += 1
        if not m: continue
        name = m.group(1).strip(); blk = []
        while i < len(lines) and lines[i].startswith('//@ ') and not lines[i].startswith('//@ func '):
            blk.append(lines[i]); i += 1
        if '//@ sweep' in blk and (pkg, name) in ok:
            have = set(w for b in blk if b.startswith('//@ checks-pre ') for w in b.split()[2:])
            add = sorted(ok[(pkg, name)] - have)
            if add:
                k = blk.index('//@ sweep'); blk.insert(k + 1, '//@ checks-pre ' + ' '.join(add)); n += len(add)
        out += blk
    open(f, 'w').write('\n'.join(out))
print('added', n, 'callee entries')

#!/bin/bash
# usage: qfdebug.sh <fn substring> <kind prefix>  — keeps SMT files, then for each: full query result and QF-fragment result
rm -rf /tmp/qfd; /verif/bin/ucfgvc run -fn "$1" -kinds "$2" -timeout 3 -keep /tmp/qfd > /dev/null 2>&1
for f in /tmp/qfd/*.smt2; do case $f in *_cover*|*_qf*) continue;; esac
  grep -v "forall\|exists" $f > ${f%.smt2}_qf.smt2
  echo "$(sed -n 2p $f | cut -c1-100): full=$(z3-new -T:5 $f | head -1) qf=$(z3-new -T:5 ${f%.smt2}_qf.smt2 | head -1)"
done

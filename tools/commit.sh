#!/bin/bash
# usage: commit.sh "<message>"  — runs every quick check; commits /verif only if all are green
cd /verif
python3 tools/mkmanifest.py
if ! ./tools/checkall.sh > /tmp/checkall.out 2>&1; then grep -v "violations=0" /tmp/checkall.out; echo "NOT COMMITTED: a check is red"; exit 1; fi
if [ -n "$(git -C /repo status --short)" ]; then echo "NOT COMMITTED: /repo has uncommitted changes (evidence must come from the committed tree)"; git -C /repo status --short; exit 1; fi
git add -A && git commit -qm "$1" && git log --oneline | head -1

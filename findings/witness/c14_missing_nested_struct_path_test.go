package ucfg

import (
	"fmt"
	"testing"
)

// Witness for the failed obligation reifyGetField#at-call@reifyMergeValue (the null made up for a missing setting is
// located at the field's name below the enclosing configuration).
func TestVerifWitnessRequiredFieldInAbsentNestedStructPath(t *testing.T) {
	type inner struct {
		X int `config:"x" validate:"required"`
	}
	type target struct {
		Sub struct {
			In inner `config:"in"`
		} `config:"sub"`
	}
	c, err := NewFrom(map[string]interface{}{"sub": map[string]interface{}{"z": 1}}, PathSep("."))
	if err != nil {
		t.Fatal(err)
	}
	var to target
	err = c.Unpack(&to, PathSep("."))
	fmt.Printf("WITNESS-RETURNED err=%v\n", err)
	if err == nil {
		t.Fatal("expected an error")
	}
	want := "missing required field accessing 'sub.in.x'"
	if err.Error() != want {
		t.Errorf("error %q does not name the setting at fault (want %q)", err.Error(), want)
	}
}

package ucfg

import (
	"errors"
	"fmt"
	"testing"
)

type zzProbe struct{ I int }

func (p zzProbe) Validate() error {
	if p.I == 0 {
		return errors.New("probe rejects zero")
	}
	return nil
}

// Witness for the failed obligations tryValidate#post.value_receiver / #post.no_method / #post.nil_is_valid stated over
// the value an interface holds (chasedI(val)).
func TestVerifWitnessValidateBehindInterfaceNotCalled(t *testing.T) {
	a := struct {
		V interface{} `config:"v"`
	}{V: zzProbe{I: 0}}
	err := New().Unpack(&a)
	fmt.Printf("WITNESS-RETURNED interface{} field: err=%v\n", err)
	if err == nil {
		t.Errorf("Validate() of the value held in an interface{} field was not consulted")
	}
	b := struct {
		M map[string]interface{} `config:"m"`
	}{M: map[string]interface{}{"a": zzProbe{I: 0}}}
	err = New().Unpack(&b)
	fmt.Printf("WITNESS-RETURNED map[string]interface{} entry: err=%v\n", err)
	if err == nil {
		t.Errorf("Validate() of a value held in a map[string]interface{} was not consulted")
	}
	// control: the same value in a field of its own type is rejected
	c := struct {
		V zzProbe `config:"v"`
	}{}
	err = New().Unpack(&c)
	fmt.Printf("WITNESS-RETURNED control (concrete field): err=%v\n", err)
}

package ucfg

import (
	"fmt"
	"regexp"
	"testing"
)

func TestVerifWitnessRegexpByValueCanNotBeUnpacked(t *testing.T) {
	type T struct {
		R  regexp.Regexp   `config:"r"`
		L  []regexp.Regexp `config:"l"`
		P  *regexp.Regexp  `config:"p"`
	}
	in := T{R: *regexp.MustCompile("a+"), L: []regexp.Regexp{*regexp.MustCompile("b+")}, P: regexp.MustCompile("c+")}
	c := New()
	if err := c.Merge(in); err != nil {
		t.Fatal(err)
	}
	var out T
	err := c.Unpack(&out)
	fmt.Printf("WITNESS-RETURNED err=%v\n", err)
	if err != nil {
		t.Fatalf("a struct holding regular expressions by value does not survive the round trip: %v", err)
	}
	fmt.Printf("WITNESS-RETURNED r=%q l=%q p=%q\n", out.R.String(), out.L[0].String(), out.P.String())
	if out.R.String() != "a+" || out.L[0].String() != "b+" || out.P.String() != "c+" {
		t.Errorf("got %q %q %q", out.R.String(), out.L[0].String(), out.P.String())
	}
}

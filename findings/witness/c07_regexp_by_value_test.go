package ucfg

import (
	"fmt"
	"regexp"
	"testing"
)

// Witness for the failed obligation normalizeValue#rte.extern@(Value).Addr (addressability precondition of reflect).
func TestVerifWitnessRegexpByValuePanics(t *testing.T) {
	defer func() {
		if r := recover(); r != nil {
			fmt.Printf("WITNESS-RETURNED panic: %v\n", r)
			t.Errorf("Merge panicked: %v", r)
		}
	}()
	c := New()
	err := c.Merge(map[string]interface{}{"r": *regexp.MustCompile("a+")})
	s, _ := c.String("r", -1)
	fmt.Printf("WITNESS-RETURNED map value: err=%v r=%q\n", err, s)
	c2 := New()
	err = c2.Merge(struct{ R regexp.Regexp }{*regexp.MustCompile("b+")})
	s, _ = c2.String("r", -1)
	fmt.Printf("WITNESS-RETURNED struct by value: err=%v r=%q\n", err, s)
}

func TestVerifWitnessConfigByValuePanics(t *testing.T) {
	defer func() {
		if r := recover(); r != nil {
			fmt.Printf("WITNESS-RETURNED panic: %v\n", r)
			t.Errorf("Merge panicked: %v", r)
		}
	}()
	sub := MustNewFrom(map[string]interface{}{"x": 1})
	c := New()
	err := c.Merge(map[string]interface{}{"s": *sub})
	n, _ := c.Int("s.x", -1, PathSep("."))
	fmt.Printf("WITNESS-RETURNED Config by value in a map: err=%v s.x=%v\n", err, n)
}

package ucfg

// Witness for C06, failed obligations reifyValue#at-call@reifyPrimitive[rtKind(baseType) != 17] and #post.container_typed:
// Merge accepts arrays behind pointers and arrays as elements of maps and lists, Unpack refused them ("not convertible into
// unsupported go type [2]int"): reifyValue had a case for slices but none for arrays, so an array that has to be created fell
// through to the primitive reading.

import (
	"reflect"
	"testing"
)

func TestWitnessC06ArraysThatHaveToBeCreated(t *testing.T) {
	type A struct {
		P *[2]int
		M map[string][2]int
		L [][2]int
		Q *[1]*[2]string
	}
	in := A{P: &[2]int{1, 2}, M: map[string][2]int{"k": {3, 4}}, L: [][2]int{{5, 6}}, Q: &[1]*[2]string{{"a", "b"}}}
	c, err := NewFrom(in)
	if err != nil {
		t.Fatalf("WITNESS %v", err)
	}
	var out A
	if err := c.Unpack(&out); err != nil {
		t.Fatalf("WITNESS %v", err)
	}
	if !reflect.DeepEqual(in, out) {
		t.Errorf("WITNESS got %+v", out)
	}
	// wrong length is still an error
	c2 := MustNewFrom(map[string]interface{}{"p": []int{1, 2, 3}})
	if err := c2.Unpack(&out); err == nil {
		t.Errorf("no error for a list of the wrong length")
	}
}

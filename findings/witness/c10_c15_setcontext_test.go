package ucfg

import (
	"fmt"
	"testing"
)

// Witness for the known findings (namedField).SetValue#post.source_kept (C10) and #post.slot_ctx (C15):
// storing a *Config under a name re-parents it in place when it is a root (the source of a merge that
// embeds it changes its path and parent), and leaves its context alone when it is already attached
// (a child attached a second time keeps reporting its first position).
func TestVerifWitnessEmbeddedRootConfigIsReparented(t *testing.T) {
	src, _ := NewFrom(map[string]interface{}{"a": 1})
	dst := New()
	if err := dst.Merge(map[string]interface{}{"sub": src}); err != nil {
		t.Fatal(err)
	}
	fmt.Printf("WITNESS-RETURNED source path after being embedded in a merge input: %q (parent nil: %v)\n", src.Path("."), src.Parent() == nil)
	if src.Path(".") != "" || src.Parent() != nil {
		t.Errorf("merge changed its source: path %q", src.Path("."))
	}
}

func TestVerifWitnessReattachedChildKeepsOldPath(t *testing.T) {
	c, _ := NewFrom(map[string]interface{}{"x": map[string]interface{}{"i": 1}})
	x, err := c.Child("x", -1)
	if err != nil {
		t.Fatal(err)
	}
	if err := c.SetChild("y", -1, x); err != nil {
		t.Fatal(err)
	}
	y, err := c.Child("y", -1)
	if err != nil {
		t.Fatal(err)
	}
	fmt.Printf("WITNESS-RETURNED path of the node reachable at y: %q\n", y.Path("."))
	if y.Path(".") != "y" {
		t.Errorf("node reachable at y reports path %q", y.Path("."))
	}
}

package ucfg

import (
	"fmt"
	"testing"
)

// Witness for the failed obligation reifyDoArray#at-call@reifyMergeValue (every element is evaluated in a fresh,
// empty scope level).
func TestVerifWitnessSiblingListElementsShareReference(t *testing.T) {
	c, err := NewFrom(map[string]interface{}{"a": "x", "c": []interface{}{"${a}", "${a}"}}, PathSep("."), VarExp)
	if err != nil {
		t.Fatal(err)
	}
	var to struct {
		C []interface{} `config:"c"`
	}
	err = c.Unpack(&to, PathSep("."), VarExp)
	fmt.Printf("WITNESS-RETURNED []interface{} field: err=%v result=%v\n", err, to.C)
	if err != nil {
		t.Errorf("two list elements that reference the same setting: %v", err)
	}
	// control: a []string field works (primitives are converted in a scope of their own)
	var to2 struct {
		C []string `config:"c"`
	}
	err = c.Unpack(&to2, PathSep("."), VarExp)
	fmt.Printf("WITNESS-RETURNED []string field: err=%v result=%v\n", err, to2.C)
}

package ucfg

import (
	"fmt"
	"testing"
)

// Witness for the failed obligations (*reference).resolveEnv#post.none / #post.success_is_a_resolver:
// with no resolver configured resolveEnv returns a nil error, so a reference that cannot be resolved
// anywhere reads as an empty string instead of failing.
func TestVerifWitnessUnresolvedReferenceIsSilent(t *testing.T) {
	c, err := NewFrom(map[string]interface{}{"a": "${nowhere}"}, VarExp)
	if err != nil {
		t.Fatal(err)
	}
	s, err := c.String("a", -1, VarExp)
	fmt.Printf("WITNESS-RETURNED %q %v\n", s, err)
	if err == nil {
		t.Errorf("unresolvable reference read as %q with a nil error", s)
	}
}

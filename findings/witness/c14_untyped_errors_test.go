package ucfg

import (
	"fmt"
	"testing"
)

// Witness for the failed obligations (*Config).CountField#post.typed and (cfgPath).Remove#post.typed:
// both hand a raw error (not a ucfg.Error) to the caller of the exported API.
func TestVerifWitnessUntypedErrors(t *testing.T) {
	c, err := NewFrom(map[string]interface{}{"a": "${b:?boom}", "p": 1}, VarExp, PathSep("."))
	if err != nil {
		t.Fatal(err)
	}
	_, err = c.CountField("a")
	_, typed := err.(Error)
	fmt.Printf("WITNESS-RETURNED CountField: err=%v typed=%v\n", err, typed)
	if err != nil && !typed {
		t.Errorf("CountField returned an untyped error: %T %v", err, err)
	}
	_, err = c.Remove("p.x", -1, PathSep("."))
	_, typed = err.(Error)
	fmt.Printf("WITNESS-RETURNED Remove: err=%v typed=%v\n", err, typed)
	if err != nil && !typed {
		t.Errorf("Remove returned an untyped error: %T %v", err, err)
	}
}

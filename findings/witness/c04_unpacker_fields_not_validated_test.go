package ucfg

import (
	"errors"
	"fmt"
	"testing"
)

type zzU int

func (u *zzU) Unpack(v int64) error { *u = zzU(v); return nil }

type zzUV struct{ N int64 }

func (u *zzUV) Unpack(v int64) error { u.N = v; return nil }
func (u *zzUV) Validate() error {
	if u.N < 0 {
		return errors.New("negative")
	}
	return nil
}

// Witness for the failed obligation reifyMergeValue#post.unpacker_validated (a value that takes its setting through a
// custom Unpack method is validated before it is handed back).
func TestVerifWitnessUnpackerFieldsSkipValidation(t *testing.T) {
	c, _ := NewFrom(map[string]interface{}{"x": -3})
	var a struct {
		X zzU `config:"x" validate:"positive"`
	}
	err := c.Unpack(&a)
	fmt.Printf("WITNESS-RETURNED tag on Unpacker field: err=%v result=%+v\n", err, a)
	if err == nil {
		t.Errorf("positive on a field with a custom Unpack was not checked: %+v", a)
	}
	var b struct {
		X zzUV `config:"x"`
	}
	err = c.Unpack(&b)
	fmt.Printf("WITNESS-RETURNED Validate() of Unpacker field: err=%v result=%+v\n", err, b)
	if err == nil {
		t.Errorf("Validate() of a field with a custom Unpack was not called: %+v", b)
	}
	// control: the same types behind a nil pointer are validated
	var p struct {
		X *zzU `config:"x" validate:"positive"`
	}
	err = c.Unpack(&p)
	fmt.Printf("WITNESS-RETURNED control (nil pointer field): err=%v\n", err)
}

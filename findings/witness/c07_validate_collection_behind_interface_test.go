package ucfg

import (
	"fmt"
	"testing"
)

// Witness for the failed obligations validateArray#rte.extern@(Value).Len and validateMap#rte.extern@(Value).MapKeys
// (kind precondition of reflect): the dispatch in tryRecursiveValidate looks at the kind behind pointers and
// interfaces, the two helpers then use the handle as it is.
func TestVerifWitnessValidateArrayBehindInterfacePanics(t *testing.T) {
	type target struct {
		M map[string]interface{} `config:"m"`
	}
	c, _ := NewFrom(map[string]interface{}{"other": 1})
	to := target{M: map[string]interface{}{"a": []int{1, 2}}}
	defer func() {
		if r := recover(); r != nil {
			fmt.Printf("WITNESS-RETURNED panic: %v\n", r)
			t.Errorf("Unpack panicked: %v", r)
		}
	}()
	err := c.Unpack(&to)
	fmt.Printf("WITNESS-RETURNED err=%v\n", err)
}

func TestVerifWitnessValidateMapBehindInterfacePanics(t *testing.T) {
	type target struct {
		M map[string]interface{} `config:"m"`
	}
	c, _ := NewFrom(map[string]interface{}{"other": 1})
	to := target{M: map[string]interface{}{"a": map[string]int{"x": 1}}}
	defer func() {
		if r := recover(); r != nil {
			fmt.Printf("WITNESS-RETURNED panic: %v\n", r)
			t.Errorf("Unpack panicked: %v", r)
		}
	}()
	err := c.Unpack(&to)
	fmt.Printf("WITNESS-RETURNED err=%v\n", err)
}

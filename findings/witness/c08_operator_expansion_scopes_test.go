package ucfg

import (
	"fmt"
	"testing"
)

// Witness for the failed obligations (*expansionDefault|Alt|Err|Single).eval#at-call@... (the name, the referenced value
// and the right-hand side of an operator expansion are evaluated in fresh, empty scope levels).
func TestVerifWitnessSameVariableInOperatorExpansion(t *testing.T) {
	cases := []struct {
		in   map[string]interface{}
		key  string
		want string
	}{
		{map[string]interface{}{"x": "v", "s": "${x:+--flag=${x}}"}, "s", "--flag=v"},
		{map[string]interface{}{"x": "v", "s": "${x:+${x}}"}, "s", "v"},
		{map[string]interface{}{"empty": "", "p": "${empty}", "q": "${empty}-x", "pq": "${p:${q}}"}, "pq", "-x"},
		{map[string]interface{}{"va": "set", "s": "${va:+${va:?k}}"}, "s", "set"},
	}
	for _, tc := range cases {
		c, err := NewFrom(tc.in, PathSep("."), VarExp)
		if err != nil {
			t.Fatal(err)
		}
		s, err := c.String(tc.key, -1, PathSep("."), VarExp)
		fmt.Printf("WITNESS-RETURNED %v: %q, err=%v\n", tc.in[tc.key], s, err)
		if err != nil || s != tc.want {
			t.Errorf("%v: got %q, %v; want %q", tc.in[tc.key], s, err, tc.want)
		}
	}
	// control: real cycles are still reported
	for _, in := range []map[string]interface{}{
		{"a": "${a:+x}"},
		{"a": "${b:d}", "b": "${a:e}x"},
	} {
		c, _ := NewFrom(in, PathSep("."), VarExp)
		s, err := c.String("a", -1, PathSep("."), VarExp)
		fmt.Printf("WITNESS-RETURNED control %v: %q, err=%v\n", in, s, err)
	}
}

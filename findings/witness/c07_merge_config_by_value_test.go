package ucfg

import (
	"fmt"
	"testing"
)

func TestVerifWitnessMergeConfigByValue(t *testing.T) {
	src, _ := NewFrom(map[string]interface{}{"a": 1})
	c := New()
	err := func() (err error) {
		defer func() {
			if r := recover(); r != nil {
				fmt.Printf("WITNESS-PANIC %v\n", r)
				t.Errorf("Merge panics: %v", r)
			}
		}()
		return c.Merge(*src)
	}()
	fmt.Printf("WITNESS-RETURNED err=%v\n", err)
	if a, err := c.Int("a", -1); err != nil || a != 1 {
		t.Errorf("the settings of the configuration passed by value were not merged: %v %v", a, err)
	}
	type wrap struct{ C Config }
	err = func() (err error) {
		defer func() {
			if r := recover(); r != nil {
				fmt.Printf("WITNESS-PANIC %v\n", r)
				t.Errorf("Merge panics: %v", r)
			}
		}()
		return c.Merge(map[string]interface{}{"sub": *src})
	}()
	fmt.Printf("WITNESS-RETURNED err=%v\n", err)
	err = func() (err error) {
		defer func() {
			if r := recover(); r != nil {
				fmt.Printf("WITNESS-PANIC %v\n", r)
				t.Errorf("Merge panics: %v", r)
			}
		}()
		return c.Merge(wrap{*src})
	}()
	fmt.Printf("WITNESS-RETURNED err=%v\n", err)
}

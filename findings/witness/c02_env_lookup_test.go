package ucfg

import (
	"fmt"
	"testing"
)

// Witness for the failed obligation (*reference).resolveRef#post.env_last_first: when the walk from the root
// succeeds with no value (err == nil, v == nil: every single-segment name that is not in the tree), the loop
// stops and the Env configurations are never consulted.
func TestVerifWitnessEnvLookupSkipped(t *testing.T) {
	env, err := NewFrom(map[string]interface{}{"x": "from-env"})
	if err != nil {
		t.Fatal(err)
	}
	c, err := NewFrom(map[string]interface{}{"a": "${x}"}, VarExp)
	if err != nil {
		t.Fatal(err)
	}
	s, err := c.String("a", -1, VarExp, Env(env))
	fmt.Printf("WITNESS-RETURNED %q %v\n", s, err)
	if err != nil || s != "from-env" {
		t.Errorf("${x} with x defined in Env(...) read as %q, %v", s, err)
	}
}

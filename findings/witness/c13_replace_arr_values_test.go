package ucfg

// Witness for C13, failed obligation reifySliceMerge#at-call@reifyDoArray (replace policies: the old entries are dropped):
// ReplaceArrValues ("replace old arrays", honoured by Merge) was ignored when unpacking into a pre-filled Go slice - the new
// entries were merged index by index into the old ones.

import "testing"

func TestWitnessC13ReplaceArrValuesOnSlices(t *testing.T) {
	type T struct {
		L []int `config:"l"`
	}
	c := MustNewFrom(map[string]interface{}{"l": []int{9}})
	to := T{L: []int{1, 2, 3}}
	if err := c.Unpack(&to, ReplaceArrValues); err != nil {
		t.Fatal(err)
	}
	if len(to.L) != 1 || to.L[0] != 9 {
		t.Errorf("WITNESS Unpack with ReplaceArrValues into [1 2 3]: %v, want [9]", to.L)
	}
	// Merge honours the same option
	a := MustNewFrom(map[string]interface{}{"l": []int{1, 2, 3}})
	if err := a.Merge(map[string]interface{}{"l": []int{9}}, ReplaceArrValues); err != nil {
		t.Fatal(err)
	}
	if n, _ := a.CountField("l"); n != 1 {
		t.Errorf("WITNESS Merge with ReplaceArrValues: %v entries", n)
	}
}

package ucfg

import (
	"fmt"
	"testing"
)

type zzK string

func try19(t *testing.T, name string, f func() error) {
	defer func() {
		if r := recover(); r != nil {
			fmt.Printf("WITNESS-RETURNED %s: panic: %v\n", name, r)
			t.Errorf("%s panicked: %v", name, r)
		}
	}()
	err := f()
	fmt.Printf("WITNESS-RETURNED %s: err=%v\n", name, err)
}

// Witness for the failed obligations reifyMap#rte.extern@(Value).MapIndex / SetMapIndex (key type), (*Config).Unpack#pre@reifyInto
// (the target is settable behind its pointers, or a non-nil map) and reifyMergeValue#pre@reifyMap (a nil map is settable).
func TestVerifWitnessUnpackTargetsThatPanic(t *testing.T) {
	c, _ := NewFrom(map[string]interface{}{"a": 1, "m": map[string]interface{}{"k": map[string]interface{}{"x": 1}}})
	try19(t, "map with a named string key type", func() error {
		var m map[zzK]interface{}
		err := c.Unpack(&m)
		if err == nil && m["a"] == nil {
			return fmt.Errorf("key a missing in %v", m)
		}
		return err
	})
	try19(t, "nil map passed by value", func() error {
		var m map[string]interface{}
		return c.Unpack(m)
	})
	try19(t, "nil pointer", func() error {
		type T struct{ A int }
		return c.Unpack((*T)(nil))
	})
	try19(t, "nil map held in a map", func() error {
		to := struct {
			M map[string]map[string]int `config:"m"`
		}{M: map[string]map[string]int{"k": nil}}
		return c.Unpack(&to)
	})
}

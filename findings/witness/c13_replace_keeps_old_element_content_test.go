package ucfg

import (
	"fmt"
	"testing"
)

// Witness for the failed obligation reifySliceMerge#at-call@reifyDoArray (replace policy: the slice handed to the
// element loop holds zero values only): under the replace policy the old entries are still copied into the new
// slice and the configured entries are then merged *into* them, so content of the replaced list survives in the
// elements (fields the configuration does not mention keep the old element's values).
func TestVerifWitnessReplaceKeepsOldElementContent(t *testing.T) {
	type el struct {
		A int `config:"a"`
		B int `config:"b"`
	}
	type target struct {
		L []el `config:"l,replace"`
	}
	c, err := NewFrom(map[string]interface{}{"l": []interface{}{map[string]interface{}{"a": 5}}})
	if err != nil {
		t.Fatal(err)
	}
	to := target{L: []el{{A: 1, B: 2}, {A: 3, B: 4}}}
	if err := c.Unpack(&to); err != nil {
		t.Fatal(err)
	}
	fmt.Printf("WITNESS-RETURNED replace: %+v\n", to.L)
	if len(to.L) != 1 || to.L[0].A != 5 || to.L[0].B != 0 {
		t.Errorf("replace policy: got %+v, want [{A:5 B:0}] (B:2 is content of the replaced list)", to.L)
	}
}

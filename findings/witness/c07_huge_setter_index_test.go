package ucfg

import (
	"fmt"
	"testing"
)

// Witness for the failed obligation (idxField).SetValue#post.bound (result == nil ==> i.i <= opts.maxIdx):
// the idx argument of a setter is not capped by MaxIdx, so one call allocates idx+1 slots
// (SetInt("", 1<<40, 1) dies with an out-of-memory fatal error; a smaller index is used here).
func TestVerifWitnessHugeSetterIndex(t *testing.T) {
	c := New()
	err := c.SetInt("l", 5000000, 1, MaxIdx(16))
	n, _ := c.CountField("l")
	fmt.Printf("WITNESS-RETURNED err=%v slots=%d (MaxIdx=16)\n", err, n)
	if err == nil && n > 17 {
		t.Errorf("list grew to %d entries with MaxIdx(16)", n)
	}
}

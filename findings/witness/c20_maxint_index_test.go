package ucfg

import (
	"fmt"
	"math"
	"testing"
)

// Witness for the failed obligation (idxField).SetValue#pre@(*fields).setAt[0 <= idx && idx < MaxInt64] (the first version
// of the contract excluded MaxIdx = MaxInt64 by a precondition; without it the call site fails).
func TestVerifWitnessMaxIdxAtMaxInt64Panics(t *testing.T) {
	defer func() {
		if r := recover(); r != nil {
			fmt.Printf("WITNESS-RETURNED panic: %v\n", r)
			t.Errorf("panicked: %v", r)
		}
	}()
	_, err := NewFrom(map[string]interface{}{"9223372036854775807": "v"}, MaxIdx(math.MaxInt64))
	fmt.Printf("WITNESS-RETURNED NewFrom: err=%v\n", err)
	c := New()
	err = c.SetString("", math.MaxInt64, "x", MaxIdx(math.MaxInt64))
	fmt.Printf("WITNESS-RETURNED SetString: err=%v\n", err)
}

package ucfg

import (
	"fmt"
	"testing"
)

// Witness for the failed obligation raiseInvalidTopLevelType#at-call@(Value).Type[rvValid(v)] (the error constructor
// asks an invalid reflect handle for its type): Unpack into a pointer to a nil interface{} is meant to be refused with a type-mismatch error, but the constructor of that error panics.
func TestVerifWitnessNilInterfaceTopLevel(t *testing.T) {
	try := func(what string, f func() error) {
		defer func() {
			if r := recover(); r != nil {
				fmt.Printf("WITNESS-PANIC %s: %v\n", what, r)
				t.Errorf("%s panicked: %v", what, r)
			}
		}()
		err := f()
		fmt.Printf("WITNESS-RETURNED %s: err=%v\n", what, err)
		if err == nil {
			t.Errorf("%s: expected an error", what)
		}
	}
	c, _ := NewFrom(map[string]interface{}{"a": 1})
	try("Unpack(&got), var got interface{}", func() error { var got interface{}; return c.Unpack(&got) })
	try("Unpack(&p), var p *interface{}", func() error { var p *interface{}; return c.Unpack(&p) })
}

package ucfg

import (
	"fmt"
	"testing"
)

// Witness for the failed obligation (*splice).eval#at-call@iface:varEvaler.eval (every piece of a string is evaluated
// in a fresh, empty scope level).
func TestVerifWitnessSameVariableTwiceInOneString(t *testing.T) {
	c, err := NewFrom(map[string]interface{}{"a": "x", "b": "${a}-${a}"}, PathSep("."), VarExp)
	if err != nil {
		t.Fatal(err)
	}
	s, err := c.String("b", -1, PathSep("."), VarExp)
	fmt.Printf("WITNESS-RETURNED String(b) = %q, err=%v\n", s, err)
	if err != nil || s != "x-x" {
		t.Errorf("String(b) = %q, %v; want x-x", s, err)
	}
	var m map[string]interface{}
	err = c.Unpack(&m, PathSep("."), VarExp)
	fmt.Printf("WITNESS-RETURNED Unpack = %v, err=%v\n", m, err)
	if err != nil {
		t.Errorf("Unpack: %v", err)
	}
}
func TestVerifControlCyclesStillDetected(t *testing.T) {
	for _, in := range []map[string]interface{}{
		{"a": "${a}-x"},
		{"a": "x${b}", "b": "y${a}"},
		{"a": "${b}${b}", "b": "${c}", "c": "${a}"},
	} {
		c, err := NewFrom(in, PathSep("."), VarExp)
		if err != nil {
			t.Fatal(err)
		}
		_, err = c.String("a", -1, PathSep("."), VarExp)
		fmt.Printf("WITNESS-RETURNED %v: err=%v\n", in, err)
		if err == nil {
			t.Errorf("cycle not detected in %v", in)
		}
	}
}

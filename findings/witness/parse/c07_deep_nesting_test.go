package parse

import (
	"fmt"
	"strings"
	"testing"
)

// Witness for the failed obligations (*flagParser).parseValue#at-call@parseArray / parseObj [nesting(p) <= 10000] (the
// recursion depth is bounded by a constant; stated over a ghost counter before the fix, over p.depth after it).
// On the unfixed tree the first call ends the test process with "fatal error: stack overflow".
func TestVerifWitnessDeepNestingExhaustsTheStack(t *testing.T) {
	_, err := Value(strings.Repeat("[", 6000000))
	fmt.Printf("WITNESS-RETURNED 6e6 '[': err=%.60v\n", err)
	if err == nil {
		t.Errorf("expected an error")
	}
	_, err = Value(strings.Repeat("{a:", 6000000))
	fmt.Printf("WITNESS-RETURNED 6e6 '{a:': err=%.60v\n", err)
	v, err := Value(strings.Repeat("[", 9000) + "1" + strings.Repeat("]", 9000))
	fmt.Printf("WITNESS-RETURNED depth 9000 (allowed): err=%v nil=%v\n", err, v == nil)
	if err != nil {
		t.Errorf("depth 9000 rejected: %v", err)
	}
}

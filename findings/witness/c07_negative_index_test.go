package ucfg

import (
	"fmt"
	"testing"
)

// Witness for the failed obligations (idxField).GetValue#rte.index (model: i.i = -1) and
// (idxField).SetValue#pre@(*fields).setAt (0 <= idx): a negative idx argument to a getter or
// setter reaches the array part unchecked.
func TestVerifWitnessNegativeIndex(t *testing.T) {
	try := func(what string, f func()) {
		defer func() {
			if r := recover(); r != nil {
				fmt.Printf("WITNESS-PANIC %s: %v\n", what, r)
				t.Errorf("%s panicked: %v", what, r)
			}
		}()
		f()
	}
	c, err := NewFrom(map[string]interface{}{"a": []int{1, 2}})
	if err != nil {
		t.Fatal(err)
	}
	sub, _ := c.Child("a", -1)
	try("Int(\"\", -5)", func() { _, err := sub.Int("", -5); fmt.Println("WITNESS-RETURNED", err) })
	try("SetInt(\"\", -5, 1)", func() { err := sub.SetInt("", -5, 1); fmt.Println("WITNESS-RETURNED", err) })
}

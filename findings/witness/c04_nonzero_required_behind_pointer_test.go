package ucfg

import (
	"fmt"
	"testing"
)

// Witness for the failed obligations validateNonZero#post.string_behind_pointers and
// validateRequired#post.int_behind_pointers / string_behind_pointers: nonzero and required judge the pointer instead
// of the value when a pre-filled default is held behind a pointer (min/max/positive look behind it, and the same
// value taken from the configuration is rejected).
func TestVerifWitnessNonzeroRequiredBehindPointer(t *testing.T) {
	empty, zero := "", 0
	type S struct {
		P *string `config:"p" validate:"nonzero"`
	}
	type R struct {
		N *int `config:"n" validate:"required"`
	}
	// controls: the same values from the configuration are rejected
	c1, _ := NewFrom(map[string]interface{}{"p": ""})
	e1 := c1.Unpack(&S{})
	c2, _ := NewFrom(map[string]interface{}{"n": 0})
	e2 := c2.Unpack(&R{})
	fmt.Printf("WITNESS-RETURNED from configuration: nonzero p=\"\": %v; required n=0: %v\n", e1, e2)
	if e1 == nil || e2 == nil {
		t.Fatalf("control failed")
	}
	c, _ := NewFrom(map[string]interface{}{"other": 1})
	s := S{P: &empty}
	err1 := c.Unpack(&s)
	fmt.Printf("WITNESS-RETURNED default *string \"\", nonzero: err=%v\n", err1)
	if err1 == nil {
		t.Errorf("Unpack returned nil although the default behind the pointer is the empty string (nonzero)")
	}
	r := R{N: &zero}
	err2 := c.Unpack(&r)
	fmt.Printf("WITNESS-RETURNED default *int 0, required: err=%v\n", err2)
	if err2 == nil {
		t.Errorf("Unpack returned nil although the default behind the pointer is 0 (required)")
	}
}

package ucfg

import (
	"fmt"
	"testing"
)

// Witness for the failed obligations reifyStruct#at-call@reifyGetField / reifyInto / reifyMergeValue (every field is
// evaluated in a fresh, empty scope level).
func TestVerifWitnessSiblingStructFieldsShareReference(t *testing.T) {
	c, err := NewFrom(map[string]interface{}{
		"a": map[string]interface{}{"k": "v"},
		"x": "${a}",
		"y": "${a}",
	}, PathSep("."), VarExp)
	if err != nil {
		t.Fatal(err)
	}
	type sub struct {
		K string `config:"k"`
	}
	var to struct {
		X sub `config:"x"`
		Y sub `config:"y"`
	}
	err = c.Unpack(&to, PathSep("."), VarExp)
	fmt.Printf("WITNESS-RETURNED struct fields: err=%v result=%+v\n", err, to)
	if err != nil {
		t.Errorf("two sibling struct fields that reference the same object: %v", err)
	}
	// control: the same through a map target (one level per entry) works
	var m map[string]sub
	err = c.Unpack(&m, PathSep("."), VarExp)
	fmt.Printf("WITNESS-RETURNED map entries: err=%v result=%+v\n", err, m)
}

package ucfg

import (
	"fmt"
	"testing"
)

func TestVerifWitnessNilPointerToMapTarget(t *testing.T) {
	c, _ := NewFrom(map[string]interface{}{"a": 1, "b": map[string]interface{}{"c": "x"}})
	var x *map[string]interface{}
	err := func() (err error) {
		defer func() {
			if r := recover(); r != nil {
				fmt.Printf("WITNESS-PANIC %v\n", r)
				t.Errorf("Unpack panics: %v", r)
			}
		}()
		return c.Unpack(&x)
	}()
	fmt.Printf("WITNESS-RETURNED err=%v x=%v\n", err, x)
	if err != nil {
		t.Fatal(err)
	}
	if x == nil || fmt.Sprint((*x)["a"]) != "1" {
		t.Errorf("got %v", x)
	}
	// the same target type works when it is nested
	var y struct{ M *map[string]interface{} }
	c2, _ := NewFrom(map[string]interface{}{"m": map[string]interface{}{"a": 1}})
	if err := c2.Unpack(&y); err != nil || y.M == nil || fmt.Sprint((*y.M)["a"]) != "1" {
		t.Errorf("nested: %v %v", err, y.M)
	}
}

package ucfg

import (
	"fmt"
	"testing"
)

// Witness for the failed obligation (*Config).CountField#post.path_addressed (the setting counted is the one the path
// parser addresses with the given options).
func TestVerifWitnessCountFieldIgnoresPathSep(t *testing.T) {
	c, err := NewFrom(map[string]interface{}{"a": map[string]interface{}{"b": []interface{}{1, 2}}})
	if err != nil {
		t.Fatal(err)
	}
	has, _ := c.Has("a.b", -1, PathSep("."))
	n, err := c.CountField("a.b", PathSep("."))
	fmt.Printf("WITNESS-RETURNED Has(a.b)=%v CountField(a.b)=%v err=%v\n", has, n, err)
	if err != nil || n != 2 {
		t.Errorf("CountField(\"a.b\", PathSep(\".\")) = %v, %v; want 2 (Has says %v; the documentation lists PathSep)", n, err, has)
	}
	sub, _ := c.Child("a", -1)
	n2, _ := sub.CountField("b")
	fmt.Printf("WITNESS-RETURNED control Child(a).CountField(b)=%v\n", n2)
}

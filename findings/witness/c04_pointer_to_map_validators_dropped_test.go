package ucfg

import (
	"fmt"
	"testing"
)

// Witness for the failed obligation reifyValue#post.map_validated (a map built for a target has been validated with
// the field's validators, whatever pointers the target's type has): a field of type *map loses its validators
// when the map is built from the configuration; the same map field without the pointer is rejected.
func TestVerifWitnessPointerToMapValidatorsDropped(t *testing.T) {
	type plain struct {
		M map[string]int `config:"m" validate:"nonzero"`
	}
	type behindPtr struct {
		M *map[string]int `config:"m" validate:"nonzero"`
	}
	c, _ := NewFrom(map[string]interface{}{"m": map[string]interface{}{}})
	// control: without the pointer the empty map is rejected
	t0 := plain{}
	err0 := c.Unpack(&t0)
	fmt.Printf("WITNESS-RETURNED map[string]int, m: {}: err=%v\n", err0)
	if err0 == nil {
		t.Fatalf("control failed: empty map accepted")
	}
	t1 := behindPtr{}
	err1 := c.Unpack(&t1)
	fmt.Printf("WITNESS-RETURNED *map[string]int, m: {}: err=%v\n", err1)
	if err1 == nil {
		t.Errorf("Unpack returned nil although the empty map behind the pointer violates nonzero: %v", *t1.M)
	}
}

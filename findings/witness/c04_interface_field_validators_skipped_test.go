package ucfg

import (
	"fmt"
	"testing"
)

// Witness for the failed obligation reifyValue#post.interface_validated (a value built for a target of type
// interface{} has been accepted by the field's validators): the validators of a field of type interface{} are
// not run when the value comes from the configuration; the same value as a pre-filled default is rejected.
func TestVerifWitnessInterfaceFieldValidatorsSkipped(t *testing.T) {
	type target struct {
		A interface{} `config:"a" validate:"min=5"`
	}
	// control: the value 3 as a default (no setting) is rejected
	c0, _ := NewFrom(map[string]interface{}{"other": 1})
	t0 := target{A: 3}
	err0 := c0.Unpack(&t0)
	fmt.Printf("WITNESS-RETURNED default 3, min=5: err=%v\n", err0)
	if err0 == nil {
		t.Fatalf("control failed: the default is accepted")
	}
	// the case: the same value from the configuration
	c1, _ := NewFrom(map[string]interface{}{"a": 3})
	t1 := target{}
	err1 := c1.Unpack(&t1)
	fmt.Printf("WITNESS-RETURNED a: 3, min=5: err=%v result=%+v\n", err1, t1)
	if err1 == nil {
		t.Errorf("Unpack returned nil although a=3 violates min=5: %+v", t1)
	}
	type target2 struct {
		A interface{} `config:"a" validate:"nonzero"`
	}
	c2, _ := NewFrom(map[string]interface{}{"a": ""})
	t2 := target2{}
	err2 := c2.Unpack(&t2)
	fmt.Printf("WITNESS-RETURNED a: \"\", nonzero: err=%v result=%+v\n", err2, t2)
	if err2 == nil {
		t.Errorf("Unpack returned nil although a=\"\" violates nonzero")
	}
}

package ucfg

import (
	"fmt"
	"testing"
)

// Witness for the failed obligation accessField#post.policy_inherited: for a struct field whose tag names no
// merge policy, accessField hands on options whose configValueHandling is reset to the default, so the policy
// the caller is unpacking with (ReplaceValues / AppendValues / PrependValues given to Unpack) is ignored for
// every struct field, although the options are documented to configure "all merging and unpacking operations".
func TestVerifWitnessGlobalPolicyIgnoredForStructFields(t *testing.T) {
	type target struct {
		L []int `config:"l"`
	}
	c, err := NewFrom(map[string]interface{}{"l": []interface{}{7}})
	if err != nil {
		t.Fatal(err)
	}

	repl := target{L: []int{1, 2, 3}}
	if err := c.Unpack(&repl, ReplaceValues); err != nil {
		t.Fatal(err)
	}
	fmt.Printf("WITNESS-RETURNED ReplaceValues: %v\n", repl.L)
	if len(repl.L) != 1 || repl.L[0] != 7 {
		t.Errorf("Unpack(..., ReplaceValues) into {1 2 3} gave %v, want [7]", repl.L)
	}

	app := target{L: []int{1, 2, 3}}
	if err := c.Unpack(&app, AppendValues); err != nil {
		t.Fatal(err)
	}
	fmt.Printf("WITNESS-RETURNED AppendValues: %v\n", app.L)
	if len(app.L) != 4 || app.L[3] != 7 {
		t.Errorf("Unpack(..., AppendValues) into {1 2 3} gave %v, want [1 2 3 7]", app.L)
	}

	// control: the same policy named by the field's tag is honoured
	tagged := struct {
		L []int `config:"l,append"`
	}{L: []int{1, 2, 3}}
	if err := c.Unpack(&tagged); err != nil {
		t.Fatal(err)
	}
	fmt.Printf("WITNESS-RETURNED tag append: %v\n", tagged.L)
}

package ucfg

import (
	"fmt"
	"testing"
)

// Witness for the failed obligation normalizeValue#rte.extern@(Value).IsNil (model: a kind that is not nilable):
// a value of an unsupported kind (complex, uintptr) reaches v.IsNil() in the default arm and panics inside
// reflect instead of being reported as an unsupported input type.
func TestVerifWitnessUnsupportedKindsPanic(t *testing.T) {
	for _, in := range []interface{}{complex(1, 2), uintptr(3)} {
		func() {
			defer func() {
				if r := recover(); r != nil {
					fmt.Printf("WITNESS-PANIC %T: %v\n", in, r)
					t.Errorf("NewFrom panicked on a %T value: %v", in, r)
				}
			}()
			_, err := NewFrom(map[string]interface{}{"a": in})
			fmt.Printf("WITNESS-RETURNED %T: %v\n", in, err)
		}()
	}
}

package ucfg

import (
	"fmt"
	"testing"
	"time"
)

type zzS string

// Witness for the failed obligation doReifyPrimitive#post.string_kind (the value has the type of the target).
func TestVerifWitnessNamedStringTargetInSliceAndMap(t *testing.T) {
	c, _ := NewFrom(map[string]interface{}{"l": []interface{}{"x"}, "m": map[string]interface{}{"k": "y"}})
	func() {
		defer func() {
			if r := recover(); r != nil {
				fmt.Printf("WITNESS-RETURNED []S panic: %v\n", r)
				t.Errorf("Unpack into []S panicked: %v", r)
			}
		}()
		var to struct {
			L []zzS `config:"l"`
		}
		err := c.Unpack(&to)
		fmt.Printf("WITNESS-RETURNED []S: err=%v result=%v\n", err, to.L)
	}()
	func() {
		defer func() {
			if r := recover(); r != nil {
				fmt.Printf("WITNESS-RETURNED map[string]S panic: %v\n", r)
				t.Errorf("Unpack into map[string]S panicked: %v", r)
			}
		}()
		var to struct {
			M map[string]zzS `config:"m"`
		}
		err := c.Unpack(&to)
		fmt.Printf("WITNESS-RETURNED map[string]S: err=%v result=%v\n", err, to.M)
	}()
}

// On the unfixed tree this one never returns and allocates without bound (pointerize loops taking addresses):
// it is run in a goroutine and given 2 seconds.
func TestVerifWitnessNamedStringFieldHangs(t *testing.T) {
	c, _ := NewFrom(map[string]interface{}{"a": "x"})
	done := make(chan error, 1)
	var to struct {
		A zzS `config:"a"`
	}
	go func() { done <- c.Unpack(&to) }()
	select {
	case err := <-done:
		fmt.Printf("WITNESS-RETURNED named string field: err=%v result=%q\n", err, to.A)
		if err != nil || to.A != "x" {
			t.Errorf("got %q, %v", to.A, err)
		}
	case <-time.After(2 * time.Second):
		fmt.Printf("WITNESS-RETURNED named string field: Unpack did not return within 2s\n")
		t.Fatalf("Unpack into a field of a named string type does not terminate")
	}
}

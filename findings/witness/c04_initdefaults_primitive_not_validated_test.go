package ucfg

import (
	"fmt"
	"testing"
)

type zzD int

func (d *zzD) InitDefaults() { *d = -5 }

// Witness for the failed obligation reifyPrimitive#post.defaults_validated.
func TestVerifWitnessInitDefaultsOfPrimitiveNotValidated(t *testing.T) {
	var to struct {
		X zzD `config:"x" validate:"positive"`
	}
	err := New().Unpack(&to)
	fmt.Printf("WITNESS-RETURNED err=%v result=%+v\n", err, to)
	if err == nil {
		t.Errorf("InitDefaults set X = %d, which violates positive, and Unpack returned nil", to.X)
	}
}

package ucfg

// Witness for C08 (false cyclic reference): r -> ${a} -> ${b} -> "x.*" never re-enters a reference, yet unpacking r into a
// list, an array or a pointer to a regular expression failed with "cyclic reference detected for key: 'a' accessing 'r'":
// castArr evaluated the reference and then asked it for its length, reifyValue tried it as a configuration and then as a
// primitive - two evaluations in one scope level, and a first hop that is itself a reference is not cached.
// Failed obligations: (*cfgDynamic).withValue#at-call@(*cfgDynamic).getValue, castArr#at-call@(*cfgDynamic).getValue,
// castArr#at-call@iface:value.Len.

import (
	"regexp"
	"testing"
)

func TestWitnessC08TwoHopReference(t *testing.T) {
	opts := []Option{VarExp}
	c := MustNewFrom(map[string]interface{}{"r": "${a}", "a": "${b}", "b": "x.*"}, opts...)
	var l struct{ R []string }
	if err := c.Unpack(&l, opts...); err != nil || len(l.R) != 1 || l.R[0] != "x.*" {
		t.Errorf("WITNESS slice target: %v %v", err, l)
	}
	var a struct{ R [1]string }
	if err := c.Unpack(&a, opts...); err != nil || a.R[0] != "x.*" {
		t.Errorf("WITNESS array target: %v %v", err, a)
	}
	var p struct{ R *regexp.Regexp }
	if err := c.Unpack(&p, opts...); err != nil || p.R == nil || p.R.String() != "x.*" {
		t.Errorf("WITNESS *regexp.Regexp target: %v", err)
	}
	// a real cycle is still reported
	c3 := MustNewFrom(map[string]interface{}{"r": "${a}", "a": "${b}", "b": "${a}"}, opts...)
	if err := c3.Unpack(&l, opts...); err == nil {
		t.Errorf("WITNESS cycle not reported")
	}
	var s struct{ R string }
	if err := c3.Unpack(&s, opts...); err == nil {
		t.Errorf("WITNESS cycle not reported (string target)")
	}
}

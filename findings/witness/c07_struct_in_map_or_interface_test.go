package ucfg

import (
	"fmt"
	"testing"
)

type zzP struct {
	A int `config:"a"`
	B int `config:"b"`
}

// Witness for the failed obligations reifyMergeValue#pre@reifyStruct[rvCanSet(chasedP(orig))] and
// reifyMergeValue#pre@reifyArray[... rvCanSet(to)] (settability precondition of reflect.Value.Set).
func TestVerifWitnessStructInMapValuePanics(t *testing.T) {
	type target struct {
		M map[string]zzP `config:"m"`
	}
	c, _ := NewFrom(map[string]interface{}{"m": map[string]interface{}{"k": map[string]interface{}{"a": 5}}})
	to := target{M: map[string]zzP{"k": {1, 2}}}
	defer func() {
		if r := recover(); r != nil {
			fmt.Printf("WITNESS-RETURNED panic: %v\n", r)
			t.Errorf("Unpack panicked: %v", r)
		}
	}()
	err := c.Unpack(&to)
	fmt.Printf("WITNESS-RETURNED err=%v result=%+v\n", err, to.M)
	if err == nil && (to.M["k"].A != 5 || to.M["k"].B != 2) {
		t.Errorf("got %+v, want k:{A:5 B:2}", to.M)
	}
}

func TestVerifWitnessStructInInterfacePanics(t *testing.T) {
	type target struct {
		V interface{} `config:"v"`
	}
	c, _ := NewFrom(map[string]interface{}{"v": map[string]interface{}{"a": 5}})
	to := target{V: zzP{1, 2}}
	defer func() {
		if r := recover(); r != nil {
			fmt.Printf("WITNESS-RETURNED panic: %v\n", r)
			t.Errorf("Unpack panicked: %v", r)
		}
	}()
	err := c.Unpack(&to)
	fmt.Printf("WITNESS-RETURNED err=%v result=%+v\n", err, to.V)
}

func TestVerifWitnessArrayInMapValuePanics(t *testing.T) {
	type target struct {
		M map[string][2]int `config:"m"`
	}
	c, _ := NewFrom(map[string]interface{}{"m": map[string]interface{}{"k": []interface{}{7, 8}}})
	to := target{M: map[string][2]int{"k": {1, 2}}}
	defer func() {
		if r := recover(); r != nil {
			fmt.Printf("WITNESS-RETURNED panic: %v\n", r)
			t.Errorf("Unpack panicked: %v", r)
		}
	}()
	err := c.Unpack(&to)
	fmt.Printf("WITNESS-RETURNED err=%v result=%+v\n", err, to.M)
}

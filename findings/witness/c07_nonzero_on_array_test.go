package ucfg

import (
	"fmt"
	"testing"
)

// Witness for the failed obligation validateNonEmptyWithAllowNil#rte.extern@(Value).IsNil: the nonzero / required
// validators call reflect.Value.IsNil on a fixed-size array, which panics inside reflect.
func TestVerifWitnessNonzeroValidatorOnArray(t *testing.T) {
	defer func() {
		if r := recover(); r != nil {
			fmt.Printf("WITNESS-PANIC %v\n", r)
			t.Errorf("Unpack panicked: %v", r)
		}
	}()
	c, err := NewFrom(map[string]interface{}{"a": []int{1, 2}})
	if err != nil {
		t.Fatal(err)
	}
	var out struct {
		A [2]int `config:"a" validate:"nonzero"`
	}
	err = c.Unpack(&out)
	fmt.Printf("WITNESS-RETURNED %v %v\n", out.A, err)
}

package ucfg

import (
	"fmt"
	"testing"
)

// Witness for the known finding fieldOptsOverride#post.unnamed_subtree: below a key that is not on any
// named path (and with no ** wildcard) the field-handling tree is kept instead of emptied, so a per-field
// policy for "l" also applies to "q.l", a setting that merely shares the last name component at another depth.
func TestVerifWitnessPerFieldPolicyLeaks(t *testing.T) {
	a := map[string]interface{}{"l": []int{1}, "q": map[string]interface{}{"l": []int{1}}}
	b := map[string]interface{}{"l": []int{2}, "q": map[string]interface{}{"l": []int{2}}}
	c, err := NewFrom(a, PathSep("."))
	if err != nil {
		t.Fatal(err)
	}
	if err := c.Merge(b, PathSep("."), FieldAppendValues("l")); err != nil {
		t.Fatal(err)
	}
	var out struct {
		L []int `config:"l"`
		Q struct {
			L []int `config:"l"`
		} `config:"q"`
	}
	if err := c.Unpack(&out); err != nil {
		t.Fatal(err)
	}
	fmt.Printf("WITNESS-RETURNED l=%v q.l=%v\n", out.L, out.Q.L)
	if len(out.Q.L) != 1 || out.Q.L[0] != 2 {
		t.Errorf("q.l = %v: merged by the policy named for l (expected the global index-wise merge: [2])", out.Q.L)
	}
}

package ucfg

import (
	"fmt"
	"testing"
)

func TestVerifWitnessPointerToInterfaceTarget(t *testing.T) {
	c, _ := NewFrom(map[string]interface{}{"f": map[string]interface{}{"a": 1}, "g": []interface{}{1, 2}, "h": 3})
	var x struct {
		F *interface{}
		G **interface{}
		H *interface{}
	}
	err := func() (err error) {
		defer func() {
			if r := recover(); r != nil {
				fmt.Printf("WITNESS-PANIC %v\n", r)
				t.Errorf("Unpack panics: %v", r)
			}
		}()
		return c.Unpack(&x)
	}()
	fmt.Printf("WITNESS-RETURNED err=%v\n", err)
	if err == nil {
		fmt.Printf("WITNESS-RETURNED f=%v g=%v h=%v\n", *x.F, **x.G, *x.H)
		if fmt.Sprint(*x.F) != "map[a:1]" || fmt.Sprint(**x.G) != "[1 2]" || fmt.Sprint(*x.H) != "3" {
			t.Errorf("values differ")
		}
	}
}

func TestVerifWitnessPointerToFilledInterfaceTarget(t *testing.T) {
	c, _ := NewFrom(map[string]interface{}{"f": map[string]interface{}{"a": 1}})
	var held interface{} = 5
	x := struct{ F *interface{} }{&held}
	err := func() (err error) {
		defer func() {
			if r := recover(); r != nil {
				fmt.Printf("WITNESS-PANIC %v\n", r)
				t.Errorf("Unpack panics: %v", r)
			}
		}()
		return c.Unpack(&x)
	}()
	fmt.Printf("WITNESS-RETURNED err=%v f=%v\n", err, *x.F)
}

package ucfg

import (
	"fmt"
	"testing"
	"time"
)

// Witness for the failed obligations validatePositive / validateMin / validateMax #post.int, #post.float, #post.duration
// stated over the value behind pointers and interfaces (derefAny): the validators judged the pointer itself.
func TestVerifWitnessValidatorsIgnoreValuesBehindPointers(t *testing.T) {
	neg, one := -1, 1
	short := time.Second
	cases := []struct {
		name string
		to   interface{}
	}{
		{"positive", &struct {
			X *int `config:"x" validate:"positive"`
		}{X: &neg}},
		{"min", &struct {
			X *int `config:"x" validate:"min=5"`
		}{X: &one}},
		{"max", &struct {
			X *int `config:"x" validate:"max=0"`
		}{X: &one}},
		{"min duration", &struct {
			X *time.Duration `config:"x" validate:"min=10s"`
		}{X: &short}},
	}
	for _, tc := range cases {
		err := New().Unpack(tc.to)
		fmt.Printf("WITNESS-RETURNED %s: err=%v\n", tc.name, err)
		if err == nil {
			t.Errorf("%s: Unpack returned nil although the pre-filled value behind the pointer violates the validator", tc.name)
		}
	}
	// control: nonzero does look behind the pointer
	zero := 0
	err := New().Unpack(&struct {
		X *int `config:"x" validate:"nonzero"`
	}{X: &zero})
	fmt.Printf("WITNESS-RETURNED nonzero (control): err=%v\n", err)
}

package ucfg

import (
	"fmt"
	"testing"
)

func TestVerifWitnessPointerToMapElement(t *testing.T) {
	m := map[string]int{"a": 1}
	type T struct {
		L []*map[string]int          `config:"l"`
		M map[string]*map[string]int `config:"m"`
	}
	in := T{L: []*map[string]int{&m}, M: map[string]*map[string]int{"k": &m}}
	c := New()
	if err := c.Merge(in); err != nil {
		t.Fatal(err)
	}
	var out T
	err := func() (err error) {
		defer func() {
			if r := recover(); r != nil {
				fmt.Printf("WITNESS-PANIC %v\n", r)
				t.Errorf("Unpack panics: %v", r)
			}
		}()
		return c.Unpack(&out)
	}()
	fmt.Printf("WITNESS-RETURNED err=%v\n", err)
	if err != nil {
		t.Fatal(err)
	}
	if len(out.L) != 1 || out.L[0] == nil || (*out.L[0])["a"] != 1 || out.M["k"] == nil || (*out.M["k"])["a"] != 1 {
		t.Errorf("got %#v", out)
	}
}

package ucfg

import (
	"fmt"
	"regexp"
	"testing"
)

// Witness for the failed obligation reifyGetField#post.absent_untouched (a field without a setting is not written):
// a pre-filled regexp.Regexp held by value is replaced by the empty expression although the configuration does
// not mention it (a *regexp.Regexp and a string field keep their values).
func TestVerifWitnessRegexpByValueWipedWhenAbsent(t *testing.T) {
	type target struct {
		R regexp.Regexp  `config:"r"`
		P *regexp.Regexp `config:"p"`
		S string         `config:"s"`
	}
	c, _ := NewFrom(map[string]interface{}{"other": 1})
	to := target{R: *regexp.MustCompile("a+"), P: regexp.MustCompile("b+"), S: "keep"}
	err := c.Unpack(&to)
	fmt.Printf("WITNESS-RETURNED err=%v r=%q p=%q s=%q\n", err, to.R.String(), to.P.String(), to.S)
	if err != nil {
		t.Fatal(err)
	}
	if to.P.String() != "b+" || to.S != "keep" {
		t.Fatalf("control failed")
	}
	if to.R.String() != "a+" {
		t.Errorf("field r has no setting but was overwritten: %q", to.R.String())
	}
}

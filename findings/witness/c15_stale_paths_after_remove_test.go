package ucfg

import (
	"fmt"
	"testing"
)

// Witness for the known finding (*fields).delAt#post.renumber: removing a list element that is not the last
// shifts the later elements down without renumbering their contexts, so Path() and FlattenedKeys report
// indices that no longer lead to them.
func TestVerifWitnessStalePathsAfterListRemove(t *testing.T) {
	c, err := NewFrom(map[string]interface{}{"l": []interface{}{
		map[string]interface{}{"x": 1}, map[string]interface{}{"y": 2}, map[string]interface{}{"z": 3}}}, PathSep("."))
	if err != nil {
		t.Fatal(err)
	}
	if _, err := c.Remove("l", 0, PathSep(".")); err != nil {
		t.Fatal(err)
	}
	first, err := c.Child("l", 0, PathSep("."))
	if err != nil {
		t.Fatal(err)
	}
	keys := c.FlattenedKeys(PathSep("."))
	fmt.Printf("WITNESS-RETURNED path of l[0] = %q, keys = %v\n", first.Path("."), keys)
	if first.Path(".") != "l.0" {
		t.Errorf("element now at index 0 reports path %q", first.Path("."))
	}
}

package ucfg

// Witness for C14, failed obligation (*Config).setField#at-call@(cfgPath).SetValue[opt.meta != nil ==> metaof(val) == opt.meta]:
// the setters applied the MetaData of the call to the value only AFTER cfgPath.SetValue had built the intermediate nodes of
// a dotted name from the value's (still empty) metadata, so a failure attributed to such a node named no source.

import (
	"strings"
	"testing"
)

func TestWitnessC14SetterIntermediateNodesCarryTheSource(t *testing.T) {
	sep, meta := PathSep("."), MetaData(Meta{Source: "a.yml"})
	c := New()
	for i := 0; i < 3; i++ {
		if err := c.SetInt("srv.ports", i, int64(i), sep, meta); err != nil {
			t.Fatal(err)
		}
	}
	var o struct {
		Srv struct {
			Ports [2]int `config:"ports"`
		} `config:"srv"`
	}
	err := c.Unpack(&o, sep)
	if err == nil {
		t.Fatal("no error for a list of the wrong length")
	}
	if !strings.Contains(err.Error(), "a.yml") {
		t.Errorf("WITNESS the error about srv.ports does not name the source: %v", err)
	}
}

package ucfg

import (
	"fmt"
	"testing"
)

// Witness for the known finding mergeConfigDict#post.union_keys (region: the ReplaceValues policy): the statement of
// C01 demands the union of the two dictionaries at every level under every policy (replace is about lists); under
// ReplaceValues the library drops A's dictionary wherever B's is non-empty (as its own documentation of ReplaceValues
// says), so this test FAILS on the current tree by design.
func TestVerifWitnessReplaceValuesIsNotAUnion(t *testing.T) {
	c := MustNewFrom(map[string]interface{}{"a": 1, "x": map[string]interface{}{"p": 1}})
	err := c.Merge(map[string]interface{}{"b": 2, "x": map[string]interface{}{"q": 2}}, ReplaceValues)
	var m map[string]interface{}
	_ = c.Unpack(&m)
	fmt.Printf("WITNESS-RETURNED err=%v result=%v\n", err, m)
	if _, ok := m["a"]; !ok {
		t.Errorf("a is gone: %v (want the union {a, b, x: {p, q}})", m)
	}
}

package ucfg

import (
	"fmt"
	"testing"
)

// Witnesses for the failed obligations (*Config).FlattenedKeys#at-call@iface:value.toConfig (fresh scope level per child)
// and #at-call@(*Config).FlattenedKeys[false] (the descent must not go back through the exported entry point, which
// starts a new set of references under evaluation). The second one is a fatal stack overflow on the unfixed tree.
func TestVerifWitnessFlattenedKeysSiblingsShareReference(t *testing.T) {
	c, err := NewFrom(map[string]interface{}{
		"a": map[string]interface{}{"k": "v"},
		"x": "${a}",
		"y": "${a}",
	}, PathSep("."), VarExp)
	if err != nil {
		t.Fatal(err)
	}
	keys := c.FlattenedKeys(PathSep("."), VarExp)
	fmt.Printf("WITNESS-RETURNED keys=%v\n", keys)
	// x and y both expand to the object a: each contributes the key of its (referenced) sub-tree
	if len(keys) != 3 || keys[0] != "a.k" || keys[1] != "a.k" || keys[2] != "a.k" {
		t.Errorf("keys = %v, want [a.k a.k a.k] (one of x, y is reported as a leaf because of a false cyclic reference)", keys)
	}
}
func TestVerifWitnessFlattenedKeysObjectCycle(t *testing.T) {
	c, err := NewFrom(map[string]interface{}{"a": map[string]interface{}{"b": "${a}"}}, PathSep("."), VarExp)
	if err != nil {
		t.Fatal(err)
	}
	keys := c.FlattenedKeys(PathSep("."), VarExp)
	fmt.Printf("WITNESS-RETURNED keys=%v\n", keys)
}

package ucfg

// Witness for C10, failed obligation normalizeValue#post.subs_are_new (merge.go, embedded *Config branch): a *Config embedded
// in the value handed to Merge was put into the tree being built as it is (not copied), so normalization wrote into the
// merge source: it was re-parented, and a second setting for the same key was merged INTO it.

import "testing"

func TestWitnessC10EmbeddedConfigIsAdopted(t *testing.T) {
	// two struct fields under one key: the second one was merged into the embedded source
	src := MustNewFrom(map[string]interface{}{"a": 1})
	type S struct {
		A *Config                `config:"x"`
		B map[string]interface{} `config:"x"`
	}
	if err := New().Merge(S{A: src, B: map[string]interface{}{"injected": true}}); err != nil {
		t.Fatal(err)
	}
	if ok, _ := src.Has("injected", -1); ok {
		t.Errorf("WITNESS the merge source gained the key 'injected'")
	}
	if src.Path(".") != "" || src.Parent() != nil {
		t.Errorf("WITNESS the merge source was re-parented: path %q", src.Path("."))
	}

	// a dotted key that points below the embedded source was written into the source (map order permitting)
	hit := 0
	for i := 0; i < 50; i++ {
		src := MustNewFrom(map[string]interface{}{"a": 1})
		_ = New().Merge(map[string]interface{}{"e": src, "e.b": 2}, PathSep("."))
		if ok, _ := src.Has("b", -1); ok {
			hit++
		}
	}
	if hit > 0 {
		t.Errorf("WITNESS the merge source gained the key 'b' in %v of 50 runs", hit)
	}

	// its own references still resolve afterwards
	ref := MustNewFrom(map[string]interface{}{"v": 1, "r": "${v}"}, VarExp)
	if err := New().Merge(map[string]interface{}{"emb": ref}); err != nil {
		t.Fatal(err)
	}
	if i, err := ref.Int("r", -1, VarExp); err != nil || i != 1 {
		t.Errorf("WITNESS reference of the merge source after the merge: %v %v", i, err)
	}
}

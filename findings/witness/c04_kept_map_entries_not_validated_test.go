package ucfg

import (
	"fmt"
	"testing"
)

// Witness for the failed obligation reifyMap#post.validated (a successful reifyMap has recursively validated the map it
// leaves): when the configuration mentions some key of a map, the entries kept from the pre-filled target are
// not validated (they are when the configuration has no or an empty setting for the map).
func TestVerifWitnessKeptMapEntriesNotValidated(t *testing.T) {
	type el struct {
		Port int `config:"port" validate:"min=1"`
	}
	type target struct {
		M map[string]el `config:"m"`
	}
	// control 1: the configuration does not mention m at all -> the pre-filled entry is validated
	c0, _ := NewFrom(map[string]interface{}{"other": 1})
	t0 := target{M: map[string]el{"x": {Port: 0}}}
	err0 := c0.Unpack(&t0)
	fmt.Printf("WITNESS-RETURNED m absent: err=%v\n", err0)
	// control 2: m present but empty
	c1, _ := NewFrom(map[string]interface{}{"m": map[string]interface{}{}})
	t1 := target{M: map[string]el{"x": {Port: 0}}}
	err1 := c1.Unpack(&t1)
	fmt.Printf("WITNESS-RETURNED m empty: err=%v\n", err1)
	// the case: m mentions another key
	c2, _ := NewFrom(map[string]interface{}{"m": map[string]interface{}{"y": map[string]interface{}{"port": 5}}})
	t2 := target{M: map[string]el{"x": {Port: 0}}}
	err2 := c2.Unpack(&t2)
	fmt.Printf("WITNESS-RETURNED m has another key: err=%v result=%+v\n", err2, t2.M)
	if err2 == nil {
		t.Errorf("Unpack returned nil although kept entry m.x.port=0 violates min=1: %+v", t2.M)
	}
}

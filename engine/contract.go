package main

import (
	"bufio"
	"fmt"
	"os"
	"strings"
	"unicode"
)

// ---------------------------------------------------------------- AST

type Expr interface{}

type (
	Ident   struct{ Name string }
	IntLit  struct{ Val string }
	StrLit  struct{ Val string }
	CharLit struct{ Val int }
	BoolLit struct{ Val bool }
	NilLit  struct{}
	Unary   struct {
		Op string
		X  Expr
	}
	Binary struct {
		Op   string
		X, Y Expr
	}
	CallE struct {
		Fun  string
		Args []Expr
	}
	Select struct {
		X     Expr
		Field string
	}
	IndexE struct{ X, I Expr }
	SliceE struct{ X, Lo, Hi Expr }
	Quant  struct {
		Forall bool
		Var    string
		Type   string
		Body   Expr
	}
	TypeAssertE struct {
		X    Expr
		Type string
	}
	TypeLit struct{ Name string }
)

// ---------------------------------------------------------------- contracts

type LoopSpec struct {
	Invariants []Clause
	Decreases  []Clause
}

type Clause struct {
	Text  string
	E     Expr
	Name  string   // optional label
	Props []string // optional: properties this clause belongs to (default: all of the function's)
	Mode  string   // optional: integer model this clause is proved in ("int" | "bv"; default: the function's)
	Unproved bool  // written but not discharged: never checked, assumed by callers, listed in the evidence
}

type Contract struct {
	Pkg      string // package path
	Key      string // function key relative to package
	Mode     string // "int" | "bv"
	Params   []string
	Results  []string
	Requires []Clause
	Ensures  []Clause
	Modifies []string
	Loops    map[int]*LoopSpec
	Extern   bool
	Trusted  bool
	Pure     bool
	Line     int
	File     string
	Props    []string // properties this function is under contract for
	Uses     []string // axiom groups this function's proofs may use
	TaggedOnly []string // properties for which only explicitly tagged clauses of this function count
	NoNil    bool     // rte.nil obligations are not generated (stated assumption)
	RvWrites []string            // assumed effect on reflect storage (ghost memory RV): roots written; nil = unknown
	AtCall   map[string][]Clause // extra call-site obligations, by callee key
	DynPure  bool     // stated assumption: function values called by this function do not modify library state
	CheckPre []string // sweep functions: callees whose preconditions are checked at the call sites
	Sweep    bool     // zero-annotation C07 sweep: only run-time-error (and invariant) obligations; callee preconditions assumed
	NoRteKinds []string // run-time-error kinds not claimed for this function
	NoRte    bool     // no run-time-error obligations at all for this function (only its contract clauses are claimed)
	Lemma    bool     // ghost client (lemma) function
}

func (c *Contract) hasProp(id string) bool {
	for _, p := range c.Props {
		if p == id {
			return true
		}
	}
	return false
}

func (cl *Clause) forProp(id string) bool {
	if len(cl.Props) == 0 || id == "" {
		return true
	}
	for _, p := range cl.Props {
		if p == id {
			return true
		}
	}
	return false
}

type GhostFunc struct {
	Pkg     string
	Name    string
	Params  []string // go type strings
	Result  string
	PNames  []string
	Def     Expr // optional definition (pred)
	DefText string
	Inverse string // replay: Go function building an argument from a wanted result (witness constructor)
	Guard   string // replay: ghost predicate that must hold in the model for the inverse to apply
}

type Spec struct {
	Contracts map[string]*Contract // key: pkg + "::" + key
	Ghosts    map[string]*GhostFunc
	Axioms    []struct {
		Pkg string
		C   Clause
	}
	AxiomGroups []string // parallel to Axioms: the group label ("" = none)
	sweepDup    map[string]*Contract
}

func newSpec() *Spec {
	return &Spec{Contracts: map[string]*Contract{}, Ghosts: map[string]*GhostFunc{}}
}

func loadSpec(path string) (*Spec, error) {
	sp := newSpec()
	return sp, sp.loadFile(path, "")
}

// loadFile reads the //@ lines of one file; pkg is the package path contracts belong to unless a
// "//@ package" directive says otherwise.
func (sp *Spec) loadFile(path string, pkg string) error {
	f, err := os.Open(path)
	if err != nil {
		return err
	}
	defer f.Close()
	sc := bufio.NewScanner(f)
	sc.Buffer(make([]byte, 1<<20), 1<<20)
	var cur *Contract
	var lines []struct {
		n int
		s string
	}
	ln := 0
	for sc.Scan() {
		ln++
		s := sc.Text()
		s = strings.TrimSpace(s)
		if strings.HasPrefix(s, "// @") { // gofmt may have rewritten the marker
			s = "//@" + s[4:]
		}
		if !strings.HasPrefix(s, "//@") {
			continue
		}
		s = strings.TrimPrefix(s, "//@")
		if strings.HasPrefix(s, "   ") && len(lines) > 0 { // continuation
			lines[len(lines)-1].s += " " + strings.TrimSpace(s)
			continue
		}
		lines = append(lines, struct {
			n int
			s string
		}{ln, strings.TrimSpace(s)})
	}
	for _, l := range lines {
		s := l.s
		word, rest := splitWord(s)
		fail := func(e error) error { return fmt.Errorf("%s:%d: %v (%q)", path, l.n, e, s) }
		switch word {
		case "package":
			pkg = rest
			cur = nil
		case "func", "extern", "lemma", "iface":
			c := &Contract{Pkg: pkg, Mode: "int", Loops: map[int]*LoopSpec{}, Line: l.n, File: path, Extern: word == "extern", Lemma: word == "lemma"}
			if word == "iface" {
				rest = "iface:" + rest
			}
			// key [ (params) [(results)] ]
			key := rest
			if i := strings.Index(rest, " :: "); i >= 0 { // "key :: p1, p2 -> r1, r2"
				key = strings.TrimSpace(rest[:i])
				sig := rest[i+4:]
				ps, rs := sig, ""
				if j := strings.Index(sig, "->"); j >= 0 {
					ps, rs = sig[:j], sig[j+2:]
				}
				c.Params = splitList(ps)
				c.Results = splitList(rs)
			}
			if c.Extern {
				j := strings.Index(key, "::")
				c.Pkg, key = key[:j], key[j+2:]
			}
			c.Key = key
			if prev, dup := sp.Contracts[c.Pkg+"::"+key]; dup {
				// a function of the zero-annotation sweep that also has a hand-written contract: the hand-written
				// one wins and additionally counts for C07 (its run-time-error obligations are generated anyway)
				if sp.sweepDup == nil {
					sp.sweepDup = map[string]*Contract{}
				}
				if prev.File != path && strings.HasSuffix(path, "sweep_verif.go") {
					sp.sweepDup[c.Pkg+"::"+key] = prev
					cur = c // directives of the sweep entry go to a throw-away contract
					continue
				}
				if prev.File != path && strings.HasSuffix(prev.File, "sweep_verif.go") {
					sp.sweepDup[c.Pkg+"::"+key] = c
					sp.Contracts[c.Pkg+"::"+key] = c
					cur = c
					continue
				}
				return fail(fmt.Errorf("duplicate contract for %s", key))
			}
			sp.Contracts[c.Pkg+"::"+key] = c
			cur = c
		case "props":
			cur.Props = append(cur.Props, strings.Fields(strings.ReplaceAll(rest, ",", " "))...)
		case "nonil":
			cur.NoNil = true
		case "norte":
			if rest == "" {
				cur.NoRte = true
			} else {
				// norte assert nil ...: only these kinds of run-time-error obligations are switched off
				for _, k := range strings.Fields(rest) {
					cur.NoRteKinds = append(cur.NoRteKinds, "rte."+k)
				}
			}
		case "dynpure":
			cur.DynPure = true
		case "checks-pre":
			// checks-pre <callee> ...: in a sweep function, the preconditions of these callees are obligations at
			// their call sites (they are assumed otherwise)
			cur.CheckPre = append(cur.CheckPre, strings.Fields(rest)...)
		case "sweep":
			cur.Sweep = true
			cur.NoNil = true
		case "note":
			// free-text remark
		case "tagged-only":
			cur.TaggedOnly = append(cur.TaggedOnly, strings.Fields(strings.ReplaceAll(rest, ",", " "))...)
		case "mode":
			cur.Mode = rest
		case "pure":
			cur.Pure = true
		case "trusted":
			cur.Trusted = true
		case "requires", "ensures":
			name := ""
			cmode := ""
			unproved := false
			var cprops []string
			if strings.HasPrefix(rest, "[") {
				j := strings.Index(rest, "]")
				name = rest[1:j]
				rest = strings.TrimSpace(rest[j+1:])
				if k := strings.Index(name, "@"); k >= 0 {
					cprops = strings.Fields(strings.ReplaceAll(name[k+1:], ",", " "))
					name = strings.TrimSpace(name[:k])
				}
				if strings.Contains(name, "!unproved") {
					unproved = true
					name = strings.TrimSpace(strings.Replace(name, "!unproved", "", 1))
				}
				if k := strings.Index(name, "%"); k >= 0 {
					cmode = strings.TrimSpace(name[k+1:])
					name = strings.TrimSpace(name[:k])
				}
			}
			e, err := parseExpr(rest)
			if err != nil {
				return fail(err)
			}
			cl := Clause{Text: rest, E: e, Name: name, Props: cprops, Mode: cmode, Unproved: unproved}
			if word == "requires" {
				cur.Requires = append(cur.Requires, cl)
			} else {
				cur.Ensures = append(cur.Ensures, cl)
			}
		case "at-call":
			// at-call <callee key> requires <expr over the callee's parameter names>: an additional obligation at
			// every call of that callee inside this function (a precondition this caller has to establish although it
			// is not part of the callee's general contract)
			f := strings.SplitN(rest, " requires ", 2)
			if len(f) != 2 {
				return fail(fmt.Errorf("at-call: expected '<callee> requires <expr>'"))
			}
			e, err := parseExpr(strings.TrimSpace(f[1]))
			if err != nil {
				return fail(err)
			}
			if cur.AtCall == nil {
				cur.AtCall = map[string][]Clause{}
			}
			ck := strings.TrimSpace(f[0])
			cur.AtCall[ck] = append(cur.AtCall[ck], Clause{Text: strings.TrimSpace(f[1]), E: e})
		case "rvwrites":
			if cur.RvWrites == nil {
				cur.RvWrites = []string{}
			}
			cur.RvWrites = append(cur.RvWrites, splitList(rest)...)
		case "modifies":
			cur.Modifies = append(cur.Modifies, splitList(rest)...)
		case "loop":
			var k int
			var kind string
			n, _ := fmt.Sscanf(rest, "%d %s", &k, &kind)
			if n != 2 {
				return fail(fmt.Errorf("bad loop clause"))
			}
			body := strings.TrimSpace(rest[strings.Index(rest, kind)+len(kind):])
			e, err := parseExpr(body)
			if err != nil {
				return fail(err)
			}
			ls := cur.Loops[k]
			if ls == nil {
				ls = &LoopSpec{}
				cur.Loops[k] = ls
			}
			if kind == "invariant" {
				ls.Invariants = append(ls.Invariants, Clause{Text: body, E: e})
			} else {
				ls.Decreases = append(ls.Decreases, Clause{Text: body, E: e})
			}
		case "ghost", "pred":
			// ghost func name(a T, b U) R     |   pred name(a T) := expr
			g := &GhostFunc{Pkg: pkg}
			r := strings.TrimPrefix(rest, "func ")
			op := strings.Index(r, "(")
			cp := matchParen(r, op)
			g.Name = strings.TrimSpace(r[:op])
			for _, p := range splitList(r[op+1 : cp]) {
				n, t := splitWord(p)
				g.PNames = append(g.PNames, n)
				g.Params = append(g.Params, t)
			}
			tail := strings.TrimSpace(r[cp+1:])
			if word == "pred" {
				g.Result = "bool"
				tail = strings.TrimSpace(strings.TrimPrefix(tail, ":="))
				e, err := parseExpr(tail)
				if err != nil {
					return fail(err)
				}
				g.Def, g.DefText = e, tail
			} else {
				fs := strings.Fields(tail)
				g.Result = fs[0]
				for i := 1; i+1 < len(fs); i += 2 {
					switch fs[i] {
					case "inverse":
						g.Inverse = fs[i+1]
					case "guard":
						g.Guard = fs[i+1]
					}
				}
			}
			sp.Ghosts[g.Name] = g
		case "uses":
			cur.Uses = append(cur.Uses, strings.Fields(rest)...)
		case "axiom":
			group := ""
			if strings.HasPrefix(rest, "[") {
				j := strings.Index(rest, "]")
				group = rest[1:j]
				rest = strings.TrimSpace(rest[j+1:])
			}
			sp.AxiomGroups = append(sp.AxiomGroups, group)
			e, err := parseExpr(rest)
			if err != nil {
				return fail(err)
			}
			sp.Axioms = append(sp.Axioms, struct {
				Pkg string
				C   Clause
			}{pkg, Clause{Text: rest, E: e}})
		default:
			return fail(fmt.Errorf("unknown directive %q", word))
		}
	}
	return nil
}

// finishSweep: hand-written contracts that replaced a sweep entry also count for C07.
func (sp *Spec) finishSweep() {
	for _, c := range sp.sweepDup {
		if !c.hasProp("C07") && !c.Trusted && !c.NoRte {
			c.Props = append(c.Props, "C07")
		}
	}
}

func splitWord(s string) (string, string) {
	s = strings.TrimSpace(s)
	i := strings.IndexFunc(s, unicode.IsSpace)
	if i < 0 {
		return s, ""
	}
	return s[:i], strings.TrimSpace(s[i:])
}

func splitList(s string) []string {
	var out []string
	depth := 0
	start := 0
	for i, c := range s {
		switch c {
		case '(', '[', '{':
			depth++
		case ')', ']', '}':
			depth--
		case ',':
			if depth == 0 {
				if t := strings.TrimSpace(s[start:i]); t != "" {
					out = append(out, t)
				}
				start = i + 1
			}
		}
	}
	if t := strings.TrimSpace(s[start:]); t != "" {
		out = append(out, t)
	}
	return out
}

func matchParen(s string, open int) int {
	d := 0
	for i := open; i < len(s); i++ {
		switch s[i] {
		case '(':
			d++
		case ')':
			d--
			if d == 0 {
				return i
			}
		}
	}
	return -1
}

// ---------------------------------------------------------------- lexer

type tok struct {
	kind string // id num str chr op eof
	val  string
}

func lex(s string) ([]tok, error) {
	var out []tok
	i := 0
	ops := []string{"<==>", "==>", "::", "==", "!=", "<=", ">=", "&&", "||", "++", ".(", "(", ")", "[", "]", "{", "}", ",", ".", ":", "<", ">", "+", "-", "*", "/", "%", "!"}
	for i < len(s) {
		c := s[i]
		switch {
		case c == ' ' || c == '\t':
			i++
		case unicode.IsLetter(rune(c)) || c == '_' || c == '$':
			j := i
			for j < len(s) && (unicode.IsLetter(rune(s[j])) || unicode.IsDigit(rune(s[j])) || s[j] == '_' || s[j] == '$') {
				j++
			}
			out = append(out, tok{"id", s[i:j]})
			i = j
		case unicode.IsDigit(rune(c)):
			j := i
			for j < len(s) && (unicode.IsDigit(rune(s[j])) || unicode.IsLetter(rune(s[j])) || s[j] == '_') {
				j++
			}
			out = append(out, tok{"num", s[i:j]})
			i = j
		case c == '"':
			j := i + 1
			for j < len(s) && s[j] != '"' {
				if s[j] == '\\' {
					j++
				}
				j++
			}
			out = append(out, tok{"str", s[i+1 : j]})
			i = j + 1
		case c == '\'':
			j := i + 1
			v := 0
			if s[j] == '\\' {
				switch s[j+1] {
				case 'n':
					v = '\n'
				case 't':
					v = '\t'
				case '\\':
					v = '\\'
				case '\'':
					v = '\''
				default:
					v = int(s[j+1])
				}
				j += 2
			} else {
				v = int(s[j])
				j++
			}
			out = append(out, tok{"chr", fmt.Sprint(v)})
			i = j + 1
		default:
			found := false
			for _, op := range ops {
				if strings.HasPrefix(s[i:], op) {
					out = append(out, tok{"op", op})
					i += len(op)
					found = true
					break
				}
			}
			if !found {
				return nil, fmt.Errorf("bad char %q at %d", c, i)
			}
		}
	}
	out = append(out, tok{"eof", ""})
	return out, nil
}

// ---------------------------------------------------------------- parser

type parser struct {
	t []tok
	p int
}

func parseExpr(s string) (Expr, error) {
	t, err := lex(s)
	if err != nil {
		return nil, err
	}
	p := &parser{t: t}
	var e Expr
	func() {
		defer func() {
			if r := recover(); r != nil {
				err = fmt.Errorf("parse error: %v", r)
			}
		}()
		e = p.expr(0)
		if p.peek().kind != "eof" {
			panic(fmt.Sprintf("trailing %v", p.peek()))
		}
	}()
	return e, err
}

func (p *parser) peek() tok  { return p.t[p.p] }
func (p *parser) next() tok  { t := p.t[p.p]; p.p++; return t }
func (p *parser) isOp(s string) bool {
	return p.peek().kind == "op" && p.peek().val == s
}
func (p *parser) expect(s string) {
	if !p.isOp(s) {
		panic(fmt.Sprintf("expected %q got %v", s, p.peek()))
	}
	p.p++
}

var prec = map[string]int{"<==>": 1, "==>": 2, "||": 3, "&&": 4, "==": 5, "!=": 5, "<": 5, "<=": 5, ">": 5, ">=": 5, "++": 6, "+": 6, "-": 6, "*": 7, "/": 7, "%": 7}

func (p *parser) expr(min int) Expr {
	if p.peek().kind == "id" && (p.peek().val == "forall" || p.peek().val == "exists") {
		q := p.next().val
		v := p.next().val
		ty := p.typeStr()
		p.expect("::")
		body := p.expr(0)
		return &Quant{Forall: q == "forall", Var: v, Type: ty, Body: body}
	}
	lhs := p.unary()
	for {
		t := p.peek()
		if t.kind != "op" {
			return lhs
		}
		pr, ok := prec[t.val]
		if !ok || pr < min {
			return lhs
		}
		p.next()
		var rhs Expr
		if t.val == "==>" { // right assoc
			rhs = p.expr(pr)
		} else {
			rhs = p.expr(pr + 1)
		}
		lhs = &Binary{Op: t.val, X: lhs, Y: rhs}
	}
}

func (p *parser) typeStr() string {
	s := ""
	for p.isOp("*") || p.isOp("[") {
		if p.isOp("*") {
			p.next()
			s += "*"
		} else {
			p.next()
			p.expect("]")
			s += "[]"
		}
	}
	id := p.next().val
	s += id
	if id == "interface" && p.isOp("{") {
		p.next()
		p.expect("}")
		return s + "{}"
	}
	if p.isOp(".") {
		p.next()
		s += "." + p.next().val
	}
	return s
}

func (p *parser) unary() Expr {
	if p.isOp("!") || p.isOp("-") {
		op := p.next().val
		return &Unary{Op: op, X: p.unary()}
	}
	if p.isOp("*") { // type literal like *cfgInt
		return &TypeLit{Name: p.typeStr()}
	}
	return p.postfix(p.primary())
}

func (p *parser) primary() Expr {
	t := p.next()
	switch t.kind {
	case "num":
		return &IntLit{Val: strings.ReplaceAll(t.val, "_", "")}
	case "str":
		return &StrLit{Val: t.val}
	case "chr":
		var v int
		fmt.Sscan(t.val, &v)
		return &CharLit{Val: v}
	case "id":
		switch t.val {
		case "true":
			return &BoolLit{true}
		case "false":
			return &BoolLit{false}
		case "nil":
			return &NilLit{}
		}
		if p.isOp("(") {
			p.next()
			var args []Expr
			for !p.isOp(")") {
				if t.val == "typeof" && len(args) == 0 {
					args = append(args, p.expr(0))
				} else {
					args = append(args, p.expr(0))
				}
				if p.isOp(",") {
					p.next()
				}
			}
			p.expect(")")
			return &CallE{Fun: t.val, Args: args}
		}
		return &Ident{Name: t.val}
	case "op":
		if t.val == "(" {
			e := p.expr(0)
			p.expect(")")
			return e
		}
	}
	panic(fmt.Sprintf("unexpected %v", t))
}

func (p *parser) postfix(e Expr) Expr {
	for {
		switch {
		case p.isOp(".("):
			p.next()
			ty := p.typeStr()
			p.expect(")")
			e = &TypeAssertE{X: e, Type: ty}
		case p.isOp("."):
			p.next()
			e = &Select{X: e, Field: p.next().val}
		case p.isOp("["):
			p.next()
			var lo, hi Expr
			if !p.isOp(":") {
				lo = p.expr(0)
			}
			if p.isOp(":") {
				p.next()
				if !p.isOp("]") {
					hi = p.expr(0)
				}
				p.expect("]")
				e = &SliceE{X: e, Lo: lo, Hi: hi}
			} else {
				p.expect("]")
				e = &IndexE{X: e, I: lo}
			}
		default:
			return e
		}
	}
}

package main

import (
	"fmt"
	"go/ast"
	"go/constant"
	"go/token"
	"go/types"
	"strings"

	"golang.org/x/tools/go/ssa"
)

type bind struct {
	t  T
	ty types.Type
}

type addrVar struct {
	name  string
	addr  T
	ty    types.Type
	space string // "L" when the variable's cell is a non-escaping local
}

type Env struct {
	vars        map[string]bind
	addrVars    []addrVar
	old         map[string]T // snapshot for old(); nil entries -> entry memory
	useEntryOld bool
	allocEntry  T
	fallback    func(name string) (bind, bool)
	inOld       bool
	pkg         *types.Package
	callerNames map[string]ssa.Value // at-call clauses: the calling function's variables at the call
}

func drObject(dr *ssa.DebugRef) types.Object {
	if id, ok := dr.Expr.(*ast.Ident); ok {
		_ = id
	}
	// ssa.DebugRef has unexported object; recover through exported method Object() if present
	type objer interface{ Object() types.Object }
	var x interface{} = dr
	if o, ok := x.(objer); ok {
		return o.Object()
	}
	return nil
}

func (v *fnVC) snapshot(env *Env) map[string]T {
	if env.inOld {
		if env.old == nil {
			return map[string]T{}
		}
		return env.old
	}
	return nil // current
}

// snapMem returns the version of memory m in the snapshot selected by env (old or current).
func (v *fnVC) snapMem(env *Env, m string) T {
	if s := v.snapshot(env); s != nil {
		if x, ok := s[m]; ok {
			return x
		}
		return v.mem0(m)
	}
	return v.memOrEntry(m)
}

func (v *fnVC) resolveType(s string, pkg *types.Package) types.Type {
	if strings.HasPrefix(s, "*") {
		return types.NewPointer(v.resolveType(s[1:], pkg))
	}
	if strings.HasPrefix(s, "[]") {
		return types.NewSlice(v.resolveType(s[2:], pkg))
	}
	if s == "interface{}" || s == "any" {
		return types.NewInterfaceType(nil, nil)
	}
	if strings.HasPrefix(s, "map[") {
		d := 0
		for i := 3; i < len(s); i++ {
			if s[i] == '[' {
				d++
			} else if s[i] == ']' {
				d--
				if d == 0 {
					return types.NewMap(v.resolveType(s[4:i], pkg), v.resolveType(s[i+1:], pkg))
				}
			}
		}
	}
	if obj, ok := types.Universe.Lookup(s).(*types.TypeName); ok {
		return obj.Type()
	}
	if i := strings.Index(s, "."); i > 0 {
		// qualified name: imports are file-scoped, so look the package up by name among the loaded ones
		pn, tn := s[:i], s[i+1:]
		for _, p := range v.e.tpkgs {
			if p.Name() == pn {
				if obj, ok := p.Scope().Lookup(tn).(*types.TypeName); ok {
					return obj.Type()
				}
			}
		}
		panic(fmt.Sprintf("cannot resolve type %q", s))
	}
	if pkg != nil {
		if obj, ok := pkg.Scope().Lookup(s).(*types.TypeName); ok {
			return obj.Type()
		}
	}
	tv, err := types.Eval(v.e.prog.Fset, pkg, token.NoPos, s)
	if err != nil {
		panic(fmt.Sprintf("cannot resolve type %q: %v", s, err))
	}
	return tv.Type
}

func (v *fnVC) lit(val string, ty types.Type) T {
	if v.P.bv && isFloat(ty) {
		d := val
		if strings.HasPrefix(d, "0x") {
			d = hexToDec(d)
		}
		fsort := "11 53"
		if b, ok := ty.Underlying().(*types.Basic); ok && b.Kind() == types.Float32 {
			fsort = "8 24"
		}
		return fmt.Sprintf("((_ to_fp %s) RNE %s.0)", fsort, d)
	}
	if v.P.bv {
		if b, ok := ty.Underlying().(*types.Basic); ok {
			if bits, _, ok := intInfo(b); ok {
				if strings.HasPrefix(val, "0x") {
					return fmt.Sprintf("((_ int2bv %d) %s)", bits, hexToDec(val))
				}
				return fmt.Sprintf("(_ bv%s %d)", val, bits)
			}
		}
	}
	if strings.HasPrefix(val, "0x") {
		return hexToDec(val)
	}
	return val
}

func hexToDec(h string) string {
	h = strings.TrimPrefix(h, "0x")
	n := []int{0}
	for _, c := range h {
		d := 0
		switch {
		case c >= '0' && c <= '9':
			d = int(c - '0')
		case c >= 'a' && c <= 'f':
			d = int(c-'a') + 10
		case c >= 'A' && c <= 'F':
			d = int(c-'A') + 10
		}
		carry := d
		for j := range n {
			x := n[j]*16 + carry
			n[j] = x % 10
			carry = x / 10
		}
		for carry > 0 {
			n = append(n, carry%10)
			carry /= 10
		}
	}
	var sb strings.Builder
	for i := len(n) - 1; i >= 0; i-- {
		sb.WriteByte(byte('0' + n[i]))
	}
	return sb.String()
}

var untypedInt = types.Typ[types.UntypedInt]

// tr translates a contract expression to an SMT term and its Go type.
func (v *fnVC) tr(e Expr, env *Env) (T, types.Type) {
	switch x := e.(type) {
	case *BoolLit:
		if x.Val {
			return "true", types.Typ[types.Bool]
		}
		return "false", types.Typ[types.Bool]
	case *IntLit:
		return v.lit(x.Val, types.Typ[types.Int]), untypedInt
	case *CharLit:
		return intLit(int64(x.Val)), untypedInt
	case *StrLit:
		return v.P.strLit(x.Val), types.Typ[types.String]
	case *NilLit:
		return "0", types.Typ[types.UntypedNil]
	case *Ident:
		if b, ok := env.vars[x.Name]; ok {
			return b.t, b.ty
		}
		for _, av := range env.addrVars {
			if av.name == x.Name {
				save := v.space
				v.space = av.space
				r := v.loadAt(av.addr, av.ty, v.snapshot(env))
				v.space = save
				return r, av.ty
			}
		}
		if env.pkg != nil {
			if obj := env.pkg.Scope().Lookup(x.Name); obj != nil {
				switch o := obj.(type) {
				case *types.Const:
					if o.Val().Kind() == constant.Int {
						return v.lit(o.Val().ExactString(), o.Type()), o.Type()
					}
					if o.Val().Kind() == constant.String {
						return v.P.strLit(constant.StringVal(o.Val())), o.Type()
					}
				case *types.Var:
					name := "g_" + sanitize(o.Pkg().Name()+"_"+o.Name())
					v.P.add(name, fmt.Sprintf("(declare-const %s Int)\n(assert (> %s 0))\n(assert (= (akind %s) 0))", name, name, name))
					return v.loadAt(name, o.Type(), v.snapshot(env)), o.Type()
				}
			}
		}
		if env.pkg != nil {
			if tn, ok := env.pkg.Scope().Lookup(x.Name).(*types.TypeName); ok {
				return intLit(int64(v.P.tag(tn.Type()))), types.Typ[types.Int]
			}
		}
		if tn, ok := types.Universe.Lookup(x.Name).(*types.TypeName); ok {
			return intLit(int64(v.P.tag(tn.Type()))), types.Typ[types.Int]
		}
		if env.fallback != nil {
			if b, ok := env.fallback(x.Name); ok {
				return b.t, b.ty
			}
		}
		panic(fmt.Sprintf("%s: unbound identifier %q in contract", v.fn.Name(), x.Name))
	case *Unary:
		t, ty := v.tr(x.X, env)
		if x.Op == "!" {
			return not(t), ty
		}
		if v.P.bv {
			if isFloat(ty) {
				return app("fp.neg", t), ty
			}
			return app("bvneg", t), ty
		}
		return app("-", t), ty
	case *Binary:
		return v.trBinary(x, env)
	case *Select:
		return v.trSelect(x, env)
	case *IndexE:
		a, aty := v.tr(x.X, env)
		i, _ := v.trAs(x.I, env, types.Typ[types.Int])
		switch u := aty.Underlying().(type) {
		case *types.Slice:
			return v.loadAt(v.elemAddr(app("sbase", a), v.ix(app("soff", a), i)), u.Elem(), v.snapshot(env)), u.Elem()
		case *types.Basic:
			return app("sat", a, i), types.Typ[types.Uint8]
		case *types.Array:
			return sel(a, i), u.Elem()
		case *types.Map:
			k, _ := v.trAs(x.I, env, u.Key())
			md, mv, _, _ := v.mapMems(u)
			// Go semantics: the zero value for a missing key (and for a nil map)
			in := and(not(eq(a, "0")), sel(sel(v.snapMem(env, md), a), k))
			return ite(in, sel(sel(v.snapMem(env, mv), a), k), v.P.zero(u.Elem())), u.Elem()
		}
		panic("index on " + aty.String())
	case *CallE:
		return v.trCall(x, env)
	case *Quant:
		ty := v.resolveType(x.Type, env.pkg)
		name := "q_" + x.Var
		saved, had := env.vars[x.Var]
		env.vars[x.Var] = bind{name, ty}
		body, _ := v.tr(x.Body, env)
		if had {
			env.vars[x.Var] = saved
		} else {
			delete(env.vars, x.Var)
		}
		qn := "forall"
		if !x.Forall {
			qn = "exists"
		}
		rf := v.rangeFact(name, ty)
		if n, ok := ty.(*types.Named); ok && n.Obj().Pkg() != nil && n.Obj().Pkg().Path() == "reflect" && n.Obj().Name() == "Type" {
			// reflect.Type values are opaque names in this model (nothing is read through them): a quantifier over
			// them ranges over all of them, also over the types reflect creates during the call (PtrTo)
			rf = "true"
		}
		if rf != "true" {
			if x.Forall {
				body = implies(rf, body)
			} else {
				body = and(rf, body)
			}
		}
		return fmt.Sprintf("(%s ((%s %s)) %s)", qn, name, v.P.sortOf(ty), body), types.Typ[types.Bool]
	case *TypeAssertE:
		t, _ := v.tr(x.X, env)
		ty := v.resolveType(x.Type, env.pkg)
		if _, ok := ty.Underlying().(*types.Pointer); ok {
			return app("ipay", t), ty
		}
		if _, ok := ty.Underlying().(*types.Interface); ok {
			return t, ty // assertion to an interface type: the same interface value
		}
		return app("un"+v.boxFn(ty), app("ipay", t)), ty
	case *TypeLit:
		ty := v.resolveType(x.Name, env.pkg)
		return intLit(int64(v.P.tag(ty))), types.Typ[types.Int]
	}
	panic(fmt.Sprintf("unsupported contract expression %T", e))
}

// trAs translates e, giving untyped literals the type want.
func (v *fnVC) trAs(e Expr, env *Env, want types.Type) (T, types.Type) {
	if l, ok := e.(*IntLit); ok {
		return v.lit(l.Val, want), want
	}
	if l, ok := e.(*CharLit); ok {
		return v.lit(fmt.Sprint(l.Val), want), want
	}
	if u, ok := e.(*Unary); ok && u.Op == "-" {
		if l, ok := u.X.(*IntLit); ok {
			if v.P.bv {
				return app("bvneg", v.lit(l.Val, want)), want
			}
			return app("-", v.lit(l.Val, want)), want
		}
	}
	return v.tr(e, env)
}

func isUntyped(t types.Type) bool {
	b, ok := t.(*types.Basic)
	return ok && b.Info()&types.IsUntyped != 0
}

func (v *fnVC) trBinary(x *Binary, env *Env) (T, types.Type) {
	boolT := types.Typ[types.Bool]
	switch x.Op {
	case "&&", "||", "==>", "<==>":
		a, _ := v.tr(x.X, env)
		b, _ := v.tr(x.Y, env)
		switch x.Op {
		case "&&":
			return and(a, b), boolT
		case "||":
			return or(a, b), boolT
		case "==>":
			return implies(a, b), boolT
		}
		return eq(a, b), boolT
	}
	// typeof(x) == T : the right-hand side is a type expression
	if x.Op == "==" || x.Op == "!=" {
		tcall, texpr := x.X, x.Y
		if c, ok := texpr.(*CallE); ok && c.Fun == "typeof" {
			tcall, texpr = texpr, tcall
		}
		if c, ok := tcall.(*CallE); ok && c.Fun == "typeof" {
			if ts := typeExprString(texpr); ts != "" {
				a, _ := v.tr(c.Args[0], env)
				r := eq(app("itag", a), intLit(int64(v.P.tag(v.resolveType(ts, env.pkg)))))
				if x.Op == "!=" {
					r = not(r)
				}
				return r, boolT
			}
		}
	}
	// typed operands: translate the non-literal side first
	var a, b T
	var at, bt types.Type
	if isLitExpr(x.X) && !isLitExpr(x.Y) {
		b, bt = v.tr(x.Y, env)
		a, at = v.trAs(x.X, env, bt)
	} else {
		a, at = v.tr(x.X, env)
		b, bt = v.trAs(x.Y, env, at)
	}
	ty := at
	if isUntyped(ty) {
		ty = bt
	}
	if x.Op == "==" || x.Op == "!=" {
		var r T
		switch {
		case isNil(x.Y):
			r = v.eqNil(a, at)
		case isNil(x.X):
			r = v.eqNil(b, bt)
		case isString(ty):
			if l, ok := x.Y.(*StrLit); ok {
				r = strEqLit(a, l.Val)
			} else if l, ok := x.X.(*StrLit); ok {
				r = strEqLit(b, l.Val)
			} else {
				r = eq(a, b)
			}
		case isFloat(ty) && v.P.bv:
			r = app("fp.eq", a, b)
		default:
			r = eq(a, b)
		}
		if x.Op == "!=" {
			r = not(r)
		}
		return r, boolT
	}
	if x.Op == "++" {
		return v.concat(a, b), ty
	}
	signed := true
	if bb, ok := ty.Underlying().(*types.Basic); ok {
		if _, s, ok := intInfo(bb); ok {
			signed = s
		}
	}
	if isFloat(ty) && v.P.bv {
		m := map[string]string{"<": "fp.lt", "<=": "fp.leq", ">": "fp.gt", ">=": "fp.geq", "+": "fp.add RNE", "-": "fp.sub RNE", "*": "fp.mul RNE", "/": "fp.div RNE"}
		rt := ty
		if strings.HasPrefix(m[x.Op], "fp.l") || strings.HasPrefix(m[x.Op], "fp.g") {
			rt = boolT
		}
		return app(m[x.Op], a, b), rt
	}
	if v.P.bv && !isMathT(ty) {
		var m map[string]string
		if signed {
			m = map[string]string{"<": "bvslt", "<=": "bvsle", ">": "bvsgt", ">=": "bvsge", "+": "bvadd", "-": "bvsub", "*": "bvmul", "/": "bvsdiv", "%": "bvsrem"}
		} else {
			m = map[string]string{"<": "bvult", "<=": "bvule", ">": "bvugt", ">=": "bvuge", "+": "bvadd", "-": "bvsub", "*": "bvmul", "/": "bvudiv", "%": "bvurem"}
		}
		rt := ty
		switch x.Op {
		case "<", "<=", ">", ">=":
			rt = boolT
		}
		return app(m[x.Op], a, b), rt
	}
	if isMathT(ty) && v.P.bv { // 128-bit mathematical values
		m := map[string]string{"<": "bvslt", "<=": "bvsle", ">": "bvsgt", ">=": "bvsge", "+": "bvadd", "-": "bvsub", "*": "bvmul"}
		rt := ty
		switch x.Op {
		case "<", "<=", ">", ">=":
			rt = boolT
		}
		return app(m[x.Op], a, b), rt
	}
	switch x.Op {
	case "<", "<=", ">", ">=":
		return app(x.Op, a, b), boolT
	case "+", "-", "*":
		return app(x.Op, a, b), ty // contract arithmetic is mathematical (no wrap)
	case "/":
		return app("div", a, b), ty
	case "%":
		return app("mod", a, b), ty
	}
	panic("binary op " + x.Op)
}

// mathT marks 128-bit "mathematical" values in bv mode.
type mathType struct{ types.Type }

var mathT types.Type = types.NewNamed(types.NewTypeName(token.NoPos, nil, "math128", nil), types.Typ[types.Int64], nil)

func isMathT(t types.Type) bool { return t == mathT }

func isLitExpr(e Expr) bool {
	switch x := e.(type) {
	case *IntLit, *CharLit:
		return true
	case *Unary:
		return x.Op == "-" && isLitExpr(x.X)
	}
	return false
}

func isNil(e Expr) bool { _, ok := e.(*NilLit); return ok }

func (v *fnVC) eqNil(a T, t types.Type) T {
	switch t.Underlying().(type) {
	case *types.Interface:
		return eq(a, "(mkI 0 0)")
	case *types.Slice:
		return eq(app("sbase", a), "0")
	}
	return eq(a, "0")
}

// trAddr returns the address of a location expression without loading it (ok=false if not a location).
func (v *fnVC) trAddr(e Expr, env *Env) (T, types.Type, bool) {
	switch x := e.(type) {
	case *Ident:
		for _, av := range env.addrVars {
			if av.name == x.Name {
				if _, shadow := env.vars[x.Name]; !shadow {
					v.addrSpace = av.space
					return av.addr, av.ty, true
				}
			}
		}
	case *IndexE:
		a, aty := v.tr(x.X, env)
		if sl, ok := aty.Underlying().(*types.Slice); ok {
			i, _ := v.trAs(x.I, env, types.Typ[types.Int])
			v.addrSpace = ""
			return v.elemAddr(app("sbase", a), v.ix(app("soff", a), i)), sl.Elem(), true
		}
	case *Select:
		if addr, ty, ok := v.trAddr(x.X, env); ok {
			if n, st, ok := v.isModStruct(ty); ok {
				if f, fty := findField(st, x.Field); f != "" {
					return v.fieldAddr(n, f, addr), fty, true
				}
			}
			return "", nil, false
		}
		base, bty := v.tr(x.X, env)
		if pt, ok := bty.Underlying().(*types.Pointer); ok {
			if n, st, ok := v.isModStruct(pt.Elem()); ok {
				if f, fty := findField(st, x.Field); f != "" {
					v.addrSpace = ""
					return v.fieldAddr(n, f, base), fty, true
				}
			}
		}
	}
	return "", nil, false
}

func (v *fnVC) trSelect(x *Select, env *Env) (T, types.Type) {
	v.addrSpace = ""
	if addr, ty, ok := v.trAddr(x, env); ok {
		save := v.space
		v.space = v.addrSpace
		r := v.loadAt(addr, ty, v.snapshot(env))
		v.space = save
		return r, ty
	}
	base, bty := v.tr(x.X, env)
	// pointer to module struct: load field
	if pt, ok := bty.Underlying().(*types.Pointer); ok {
		n, st, ok := v.isModStruct(pt.Elem())
		if !ok {
			panic("select on pointer to non-module struct " + bty.String())
		}
		f, fty := findField(st, x.Field)
		if f == "" {
			// promoted through embedded struct
			for i := 0; i < st.NumFields(); i++ {
				if st.Field(i).Embedded() {
					if _, est, ok := v.isModStruct(st.Field(i).Type()); ok {
						if ef, _ := findField(est, x.Field); ef != "" {
							inner := v.fieldAddr(n, st.Field(i).Name(), base)
							en, _, _ := v.isModStruct(st.Field(i).Type())
							_, efty := findField(est, x.Field)
							return v.loadAt(v.fieldAddr(en, ef, inner), efty, v.snapshot(env)), efty
						}
					}
				}
			}
			panic("no field " + x.Field + " in " + bty.String())
		}
		return v.loadAt(v.fieldAddr(n, f, base), fty, v.snapshot(env)), fty
	}
	if n, st, ok := v.isModStruct(bty); ok {
		f, fty := findField(st, x.Field)
		if f == "" {
			panic("no field " + x.Field + " in " + bty.String())
		}
		return app(structName(n)+"_"+f, base), fty
	}
	if st, ok := bty.Underlying().(*types.Struct); ok {
		// field of an external struct value (reflect.StructField, reflect.Method, ...): the same uninterpreted
		// function of the struct value that the code's own field reads use
		if f, fty := findField(st, x.Field); f != "" {
			fn := "xf_" + sanitize(v.P.sortOf(bty)+"_"+f)
			v.P.add(fn, fmt.Sprintf("(declare-fun %s (%s) %s)", fn, v.P.sortOf(bty), v.P.sortOf(fty)))
			return app(fn, base), fty
		}
	}
	panic("select " + x.Field + " on " + bty.String())
}

func findField(st *types.Struct, name string) (string, types.Type) {
	for i := 0; i < st.NumFields(); i++ {
		if st.Field(i).Name() == name {
			return name, st.Field(i).Type()
		}
	}
	return "", nil
}

// lvalue returns the address and type of a location expression (x.f).
func (v *fnVC) lvalue(e Expr, env *Env) (T, types.Type) {
	s, ok := e.(*Select)
	if !ok {
		panic("modifies item must be a field location")
	}
	base, bty := v.tr(s.X, env)
	pt, ok := bty.Underlying().(*types.Pointer)
	if !ok {
		panic("modifies item base must be a pointer")
	}
	n, st, ok := v.isModStruct(pt.Elem())
	if !ok {
		panic("modifies on non-module struct")
	}
	f, fty := findField(st, s.Field)
	return v.fieldAddr(n, f, base), fty
}

func (v *fnVC) typeOnly(e Expr, env *Env) (ty types.Type) {
	defer func() {
		if r := recover(); r != nil {
			ty = nil
		}
	}()
	save := v.facts
	_, ty = v.tr(e, env)
	v.facts = save
	return ty
}

func (v *fnVC) trCall(x *CallE, env *Env) (T, types.Type) {
	switch x.Fun {
	case "old":
		saved := env.inOld
		env.inOld = true
		t, ty := v.tr(x.Args[0], env)
		env.inOld = saved
		return t, ty
	case "atentry": // atentry(e): e in the state in which the function under check was entered (at-call clauses)
		savedIn, savedOld := env.inOld, env.old
		env.inOld, env.old = true, nil
		t, ty := v.tr(x.Args[0], env)
		env.inOld, env.old = savedIn, savedOld
		return t, ty
	case "caller": // caller(x): inside an at-call clause, the calling function's variable x at the call
		if id, ok := x.Args[0].(*Ident); ok && env.callerNames != nil {
			if sv, ok := env.callerNames[id.Name]; ok {
				return v.val(sv), sv.Type()
			}
			for _, p := range v.fn.Params {
				if p.Name() == id.Name {
					return v.vals[p], p.Type()
				}
			}
			panic("caller(" + id.Name + "): no such variable at this call")
		}
		panic("caller() needs a variable name inside an at-call clause")
	case "entry": // entry(p): value of parameter p at function entry
		if id, ok := x.Args[0].(*Ident); ok {
			for _, p := range v.fn.Params {
				if p.Name() == id.Name {
					return v.vals[p], p.Type()
				}
			}
		}
		panic("entry() needs a parameter name")
	case "len":
		a, ty := v.tr(x.Args[0], env)
		switch u := ty.Underlying().(type) {
		case *types.Slice:
			return app("slen_", a), types.Typ[types.Int]
		case *types.Basic:
			return app("slen", a), types.Typ[types.Int]
		case *types.Array:
			return intLit(u.Len()), types.Typ[types.Int]
		case *types.Map:
			return v.mapLen(a, u, v.snapshot(env)), types.Typ[types.Int]
		}
		panic("len of " + ty.String())
	case "cap":
		a, _ := v.tr(x.Args[0], env)
		return app("scap", a), types.Typ[types.Int]
	case "typeof":
		a, _ := v.tr(x.Args[0], env)
		return app("itag", a), types.Typ[types.Int]
	case "math":
		a, ty := v.tr(x.Args[0], env)
		if !v.P.bv {
			return a, ty
		}
		b := ty.Underlying().(*types.Basic)
		bits, signed, _ := intInfo(b)
		if signed {
			return fmt.Sprintf("((_ sign_extend %d) %s)", 128-bits, a), mathT
		}
		return fmt.Sprintf("((_ zero_extend %d) %s)", 128-bits, a), mathT
	case "mathlit": // mathlit(123) -> 128-bit literal
		l := x.Args[0].(*IntLit)
		if v.P.bv {
			val := l.Val
			if strings.HasPrefix(val, "0x") {
				val = hexToDec(val)
			}
			return fmt.Sprintf("(_ bv%s 128)", val), mathT
		}
		return v.lit(l.Val, types.Typ[types.Int]), types.Typ[types.Int]
	case "isNaN":
		a, _ := v.tr(x.Args[0], env)
		if !v.P.bv {
			v.P.add("f64_isNaN", "(declare-fun f64_isNaN (F64) Bool)")
			return app("f64_isNaN", a), types.Typ[types.Bool]
		}
		return app("fp.isNaN", a), types.Typ[types.Bool]
	case "isInf":
		a, _ := v.tr(x.Args[0], env)
		if !v.P.bv {
			v.P.add("f64_isInf", "(declare-fun f64_isInf (F64) Bool)")
			return app("f64_isInf", a), types.Typ[types.Bool]
		}
		return app("fp.isInfinite", a), types.Typ[types.Bool]
	case "same": // structural equality (for floats: identical value, NaN equals NaN)
		a, _ := v.tr(x.Args[0], env)
		b, _ := v.tr(x.Args[1], env)
		return eq(a, b), types.Typ[types.Bool]
	case "f2i64", "f2u64": // Go float64 -> int64/uint64 conversion of an in-range value: truncation toward zero
		a, _ := v.tr(x.Args[0], env)
		if !v.P.bv {
			v.P.add("f2i", "(declare-fun f2i (F64) Int)")
			return app("f2i", a), types.Typ[types.Int64]
		}
		if x.Fun == "f2i64" {
			return fmt.Sprintf("((_ fp.to_sbv 64) RTZ %s)", a), types.Typ[types.Int64]
		}
		return fmt.Sprintf("((_ fp.to_ubv 64) RTZ %s)", a), types.Typ[types.Uint64]
	case "truncRTZ":
		a, ty := v.tr(x.Args[0], env)
		return app("fp.roundToIntegral RTZ", a), ty
	case "fps": // signed int -> float64
		a, _ := v.tr(x.Args[0], env)
		return fmt.Sprintf("((_ to_fp 11 53) RNE %s)", a), types.Typ[types.Float64]
	case "fpu":
		a, _ := v.tr(x.Args[0], env)
		return fmt.Sprintf("((_ to_fp_unsigned 11 53) RNE %s)", a), types.Typ[types.Float64]
	case "pow2f": // 2^k as float64 constant
		l := x.Args[0].(*IntLit)
		var k int
		fmt.Sscan(l.Val, &k)
		return fmt.Sprintf("((_ to_fp 11 53) RNE %s.0)", new2pow(k)), types.Typ[types.Float64]
	case "fresh": // fresh(x): not allocated when the function (or the callee, at a call site) started
		a, ty := v.tr(x.Args[0], env)
		base := env.allocEntry
		if base == "" {
			v.memSrt[allocMem] = "Bool"
			base = v.mem0(allocMem)
		}
		fr := func(ref T) T { return and(not(eq(ref, "0")), not(sel(base, ref)), eq(app("root", ref), ref)) }
		switch ty.Underlying().(type) {
		case *types.Interface:
			// a sub-config travels as a boxed cfgSub struct: the fresh object is the *Config it holds
			res := implies(app("isptrtag", app("itag", a)), fr(app("ipay", a)))
			if pkg := v.e.typesPkg(modPrefix); pkg != nil {
				if obj := pkg.Scope().Lookup("cfgSub"); obj != nil {
					subN, _, _ := v.isModStruct(obj.Type())
					tag := intLit(int64(v.P.tag(obj.Type())))
					c := app(structName(subN)+"_c", app("un"+v.boxFn(obj.Type()), app("ipay", a)))
					res = ite(eq(app("itag", a), tag), fr(c), res)
				}
			}
			return and(not(eq(a, "(mkI 0 0)")), res), types.Typ[types.Bool]
		case *types.Slice:
			return fr(app("sbase", a)), types.Typ[types.Bool]
		}
		return fr(a), types.Typ[types.Bool]
	case "toAny": // the interface value holding x
		a, ty := v.tr(x.Args[0], env)
		if _, ok := ty.Underlying().(*types.Interface); ok {
			return a, ty
		}
		tag := intLit(int64(v.P.tag(ty)))
		anyT := types.NewInterfaceType(nil, nil)
		if _, ok := ty.Underlying().(*types.Pointer); ok {
			return app("mkI", tag, a), anyT
		}
		return app("mkI", tag, app(v.boxFn(ty), a)), anyT
	case "inTree":
		a, _ := v.tr(x.Args[0], env)
		b, _ := v.tr(x.Args[1], env)
		v.P.add("inTree", inTreeDecl)
		return app("inTree", a, app("root", b)), types.Typ[types.Bool]
	case "inChain": // inChain(s, n): name n is in fieldSet s or in one of its ancestors, in the selected heap state
		s, _ := v.tr(x.Args[0], env)
		n, _ := v.tr(x.Args[1], env)
		pkg := v.e.typesPkg(modPrefix)
		fsT := pkg.Scope().Lookup("fieldSet").Type()
		fsN, fsSt, _ := v.isModStruct(fsT)
		_, mty := findField(fsSt, "fields")
		md, _, _, _ := v.mapMems(mty.Underlying().(*types.Map))
		mi := v.P.memName("Int")
		v.memSrt[mi] = "Int"
		ff, fp := v.P.fieldFn(fsN, "fields"), v.P.fieldFn(fsN, "parent")
		v.P.add("inChain", fmt.Sprintf("(declare-fun inChain ((Array Int (Array Str Bool)) (Array Int Int) Int Str) Bool)\n(assert (forall ((D (Array Int (Array Str Bool))) (M (Array Int Int)) (s Int) (n Str)) (! (= (inChain D M s n) (and (not (= s 0)) (or (and (not (= (select M (%[1]s s)) 0)) (select (select D (select M (%[1]s s))) n)) (inChain D M (select M (%[2]s s)) n)))) :pattern ((inChain D M s n)))))\n(assert (forall ((D (Array Int (Array Str Bool))) (M (Array Int Int)) (n Str)) (! (not (inChain D M 0 n)) :pattern ((inChain D M 0 n)))))", ff, fp))
		return app("inChain", v.snapMem(env, md), v.snapMem(env, mi), s, n), types.Typ[types.Bool]
	case "isTyped": // isTyped(e): e is nil or its dynamic type implements ucfg.Error
		a, _ := v.tr(x.Args[0], env)
		return or(eq(a, "(mkI 0 0)"), app("impl_ucfg_Error", app("itag", a))), types.Typ[types.Bool]
	case "objref": // objref(x): the heap object a value / pointer refers to (a sub-config value: its *Config)
		a, ty := v.tr(x.Args[0], env)
		return v.refOf(a, ty), types.Typ[types.UnsafePointer]
	case "allocated": // allocated(x): the object x refers to exists in the selected heap state
		a, ty := v.tr(x.Args[0], env)
		ref := a
		switch ty.Underlying().(type) {
		case *types.Interface:
			ref = app("ipay", a)
		case *types.Slice:
			ref = app("sbase", a)
		}
		v.memSrt[allocMem] = "Bool"
		return and(sel(v.snapMem(env, allocMem), ref), sel(v.snapMem(env, allocMem), app("root", ref))), types.Typ[types.Bool]
	case "nilv": // nilv(): the nil value (interface)
		return "(mkI 0 0)", v.e.typesPkg(modPrefix).Scope().Lookup("value").Type()
	case "subval": // subval(c): the value (boxed cfgSub) wrapping config c
		a, _ := v.tr(x.Args[0], env)
		pkg := v.e.typesPkg(modPrefix)
		subT := pkg.Scope().Lookup("cfgSub").Type()
		subN, subSt, _ := v.isModStruct(subT)
		v.P.structSort(subN, subSt)
		bf := v.boxFn(subT)
		st := app("mk_"+structName(subN), a)
		bx := app(bf, st)
		if !strings.Contains(bx, "q_") {
			if gk := fmt.Sprint(v.blk.Index, bx); !v.grounded[gk] {
				v.grounded[gk] = true
				v.assume(eq(app("un"+bf, bx), st))
			}
		} else {
			v.P.add("unboxax:"+bf, fmt.Sprintf("(assert (forall ((x %s)) (! (= (un%s (%s x)) x) :pattern ((%s x)))))", structName(subN), bf, bf, bf))
		}
		return app("mkI", intLit(int64(v.P.tag(subT))), bx), pkg.Scope().Lookup("value").Type()
	case "subtree": // subtree(a, b): every object of config a's tree belongs to config b's tree (ownership, assumed)
		a, _ := v.tr(x.Args[0], env)
		b, _ := v.tr(x.Args[1], env)
		v.P.add("subtree", "(declare-fun subtree (Int Int) Bool)")
		return app("subtree", a, b), types.Typ[types.Bool]
	case "has": // has(m, k): k is a key of map m
		m, mty := v.tr(x.Args[0], env)
		mt := mty.Underlying().(*types.Map)
		k, _ := v.trAs(x.Args[1], env, mt.Key())
		md, _, _, _ := v.mapMems(mt)
		return and(not(eq(m, "0")), sel(sel(v.snapMem(env, md), m), k)), types.Typ[types.Bool]
	case "rvver": // rvver(x): content version of the reflect storage rooted at x (ghost memory RV)
		k, _ := v.tr(x.Args[0], env)
		v.memSrt[rvMem] = "Int"
		return sel(v.snapMem(env, rvMem), k), types.Typ[types.Int]
	case "visited": // visited(k): key already produced by the map range of this loop
		k, _ := v.tr(x.Args[0], env)
		return sel(sel(v.snapMem(env, visMem), "1"), k), types.Typ[types.Bool]
	case "dyn0", "dyn1", "dyn2": // dynN(f, rtype, args...): N-th result of calling the function value f on args
		n := int(x.Fun[3] - '0')
		f, _ := v.tr(x.Args[0], env)
		rts := typeExprString(x.Args[1])
		rt := v.resolveType(rts, env.pkg)
		as := []T{f}
		sorts := []string{"Int"}
		for _, a := range x.Args[2:] {
			t, ty := v.tr(a, env)
			as = append(as, t)
			sorts = append(sorts, v.P.sortOf(ty))
		}
		return app(v.dynFn(n, sorts, v.P.sortOf(rt)), as...), rt
	case "ctxof", "metaof": // the context / metadata currently stored in the value (read off the heap per dynamic type)
		a, aty := v.tr(x.Args[0], env)
		return v.valueAttr(a, aty, x.Fun == "ctxof", env)
	case "asmap": // asmap(x): the map[string]interface{} held by the interface value x
		a, _ := v.tr(x.Args[0], env)
		return app("ipay", a), types.NewMap(types.Typ[types.String], types.NewInterfaceType(nil, nil))
	case "base": // backing array of a slice
		a, _ := v.tr(x.Args[0], env)
		return app("sbase", a), types.Typ[types.Int]
	case "deref": // deref(p): value stored in the cell p points to
		a, ty := v.tr(x.Args[0], env)
		et := ty.Underlying().(*types.Pointer).Elem()
		return v.loadAt(a, et, v.snapshot(env)), et
	case "isNilVal":
		a, _ := v.tr(x.Args[0], env)
		ty := v.resolveType("*cfgNil", env.pkg)
		return or(eq(a, "(mkI 0 0)"), eq(app("itag", a), intLit(int64(v.P.tag(ty))))), types.Typ[types.Bool]
	}
	g := v.e.spec.Ghosts[x.Fun]
	if g == nil {
		panic("unknown contract function " + x.Fun)
	}
	gpkg := v.e.typesPkg(g.Pkg)
	var args []T
	var sorts []string
	for i, a := range x.Args {
		pt := v.resolveType(g.Params[i], gpkg)
		t, _ := v.trAs(a, env, pt)
		args = append(args, t)
		sorts = append(sorts, v.P.sortOf(pt))
	}
	rt := v.resolveType(g.Result, gpkg)
	if g.Def != nil {
		// predicate: inline definition
		inner := &Env{vars: map[string]bind{}, old: env.old, inOld: env.inOld, pkg: gpkg}
		for i, n := range g.PNames {
			inner.vars[n] = bind{args[i], v.resolveType(g.Params[i], gpkg)}
		}
		return v.tr(g.Def, inner)
	}
	name := "gh_" + g.Name
	v.P.add(name, fmt.Sprintf("(declare-fun %s (%s) %s)", name, strings.Join(sorts, " "), v.P.sortOf(rt)))
	return app(name, args...), rt
}

// typeExprString renders a contract expression that denotes a type (T, *T, pkg.T) as a type string.
func typeExprString(e Expr) string {
	switch x := e.(type) {
	case *Ident:
		return x.Name
	case *TypeLit:
		return x.Name
	case *Select:
		if id, ok := x.X.(*Ident); ok {
			return id.Name + "." + x.Field
		}
	}
	return ""
}

// valueAttr reads the context (or metadata pointer) of a ucfg value through its dynamic type.
func (v *fnVC) valueAttr(a T, aty types.Type, wantCtx bool, env *Env) (T, types.Type) {
	pkg := v.e.typesPkg(modPrefix)
	look := func(n string) types.Type { return pkg.Scope().Lookup(n).Type() }
	prim := look("cfgPrimitive")
	primN, primSt, _ := v.isModStruct(prim)
	cfgN, cfgSt, _ := v.isModStruct(look("Config"))
	fname, cfgField := "ctx", "ctx"
	if !wantCtx {
		fname, cfgField = "metadata", "metadata"
	}
	_, fty := findField(primSt, fname)
	_ = cfgSt
	snap := v.snapshot(env)
	sort := v.P.sortOf(fty)
	unk := "attr_unknown_" + fname
	v.P.add(unk, fmt.Sprintf("(declare-fun %s (Iface) %s)", unk, sort))
	res := app(unk, a)
	for _, tn := range []string{"cfgDynamic", "cfgNil", "cfgString", "cfgFloat", "cfgUint", "cfgInt", "cfgBool"} {
		n, _, _ := v.isModStruct(look(tn))
		tag := intLit(int64(v.P.tag(types.NewPointer(look(tn)))))
		addr := v.fieldAddr(primN, fname, v.fieldAddr(n, "cfgPrimitive", app("ipay", a)))
		res = ite(eq(app("itag", a), tag), v.loadAt(addr, fty, snap), res)
	}
	subT := look("cfgSub")
	subN, _, _ := v.isModStruct(subT)
	tag := intLit(int64(v.P.tag(subT)))
	c := app(structName(subN)+"_c", app("un"+v.boxFn(subT), app("ipay", a)))
	res = ite(eq(app("itag", a), tag), v.loadAt(v.fieldAddr(cfgN, cfgField, c), fty, snap), res)
	return res, fty
}

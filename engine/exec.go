package main

import (
	"os"
	"fmt"
	"go/constant"
	"go/token"
	"go/types"
	"math"
	"sort"
	"strings"

	"golang.org/x/tools/go/ssa"
)

type Obl struct {
	Name   string
	Kind   string
	Fn     string
	Text   string
	Pos    string
	Goal   T
	Reach  T
	blk    *ssa.BasicBlock
	idx    int
	Inputs []string // terms to get-value
	Props  []string // clause-level property filter (post obligations)
	Clause *Clause
	vc     *fnVC // generation this obligation belongs to, when a function is generated in two modes
}

type fact struct {
	blk  *ssa.BasicBlock
	idx  int
	text T
	decl bool
}

type loopInfo struct {
	header  *ssa.BasicBlock
	ordinal int
	back    []*ssa.BasicBlock // sources of back edges
	body    map[*ssa.BasicBlock]bool
	modMem  map[string]bool
	pos     token.Pos
	variant0 []T
	mkEnv    func(func(*ssa.Phi) T) *Env
	phis     []*ssa.Phi
}

type fnVC struct {
	e      *Engine
	fn     *ssa.Function
	con    *Contract
	P      *Prelude
	facts  []fact
	obls   []*Obl
	vals   map[ssa.Value]T
	reach  map[*ssa.BasicBlock]T
	memOut map[*ssa.BasicBlock]map[string]T
	cur    map[string]T
	memSrt map[string]string
	blk    *ssa.BasicBlock
	n      int
	idx    int
	loops  map[*ssa.BasicBlock]*loopInfo
	isBack map[[2]*ssa.BasicBlock]bool
	order  []*ssa.BasicBlock
	anc    map[*ssa.BasicBlock]map[*ssa.BasicBlock]bool
	names  map[*ssa.BasicBlock]map[string]ssa.Value // debugref-derived bindings at block exit
	oblCnt map[string]int
	notes  []string
	params []string
	inputs []inputDesc
	unsupported []string
	allocs []allocRec
	tuples map[ssa.Value][]T
	usedContracts map[string]bool
	havocked bool
	usesRV   bool // the contract speaks about reflect storage (rvver): the ghost memory RV is tracked
	seq int
	unguarded bool
	grounded map[string]bool
	loopNamesUsed map[string]bool
	rangeOf   map[*ssa.Range]ssa.Value
	localOnly map[*ssa.Alloc]bool
	space     string
	closures map[ssa.Value]*ssa.MakeClosure
	defers   []*ssa.Defer
	curClause *Clause
	ghostDone bool
	entrySeq  map[*ssa.BasicBlock]int
	addrSpace string
	privCache map[*ssa.Alloc]bool
	inRangeFact bool
}

func (v *fnVC) fresh(prefix string) string {
	v.n++
	return fmt.Sprintf("%s!%d", prefix, v.n)
}

func (v *fnVC) declare(name, sort string) {
	v.seq++
	v.facts = append(v.facts, fact{v.blk, v.seq, fmt.Sprintf("(declare-const |%s| %s)", name, sort), true})
}

func q(name string) T { return "|" + name + "|" }

func (v *fnVC) assume(t T) {
	if t == "true" {
		return
	}
	if strings.HasPrefix(t, "(and ") {
		// one assertion per conjunct: keeps the quantifier-free part usable on its own
		for _, c := range splitSexp(t[5 : len(t)-1]) {
			v.assume(c)
		}
		return
	}
	// every fact is guarded by the reachability of the block that produced it: facts of a block
	// that is an ancestor only along another path must not constrain this path
	if r := v.reach[v.blk]; r != "" && r != "true" && !v.unguarded {
		t = implies(r, t)
	}
	v.seq++
	v.facts = append(v.facts, fact{v.blk, v.seq, "(assert " + t + ")", false})
}

func (v *fnVC) newConst(prefix, sort string) T {
	n := v.fresh(prefix)
	v.declare(n, sort)
	return q(n)
}

func (v *fnVC) oblige(kind, text string, goal T, pos token.Pos) {
	if v.con != nil && v.con.Sweep && strings.HasPrefix(kind, "frame.") {
		// sweep functions claim no frame (nothing is assumed about it either)
		return
	}
	if v.con != nil && v.con.Sweep && strings.HasPrefix(kind, "pre@") && !hasStr(v.con.CheckPre, strings.TrimPrefix(kind, "pre@")) && !hasStr(v.con.CheckPre, "*") && os.Getenv("UCFGVC_PROBE_PRE") == "" {
		// sweep functions claim their own run-time errors only: callee preconditions are assumed to hold
		v.assume(implies(v.reach[v.blk], goal))
		return
	}
	label := text
	if strings.HasPrefix(kind, "rte.") {
		if v.con != nil && ((v.con.NoNil && kind == "rte.nil") || v.con.NoRte || hasStr(v.con.NoRteKinds, kind)) {
			if kind != "rte.conv" {
				v.assume(implies(v.reach[v.blk], goal))
			}
			return
		}
		// name run-time-error obligations by the source line, not by SSA temporaries
		if pos.IsValid() {
			p := v.e.prog.Fset.Position(pos)
			if sl := v.e.srcLine(p.Filename, p.Line); sl != "" {
				if len(sl) > 70 {
					sl = sl[:70]
				}
				label = sl
			}
		}
		text = kind + ": " + text
	}
	key := kind + "[" + label + "]"
	if v.curClause != nil && v.curClause.Name != "" {
		key = kind
	}
	v.oblCnt[key]++
	name := fmt.Sprintf("%s#%s#%d", v.fn.RelString(v.fn.Pkg.Pkg), key, v.oblCnt[key])
	v.seq++
	o := &Obl{Name: name, Kind: kind, Fn: v.fn.String(), Text: text, Goal: goal, Reach: v.reach[v.blk], blk: v.blk, idx: v.seq, Inputs: v.params}
	if v.curClause != nil {
		o.Props, o.Clause = v.curClause.Props, v.curClause
	}
	if pos.IsValid() {
		o.Pos = v.e.prog.Fset.Position(pos).String()
	}
	v.obls = append(v.obls, o)
	if (strings.HasPrefix(kind, "rte.") && kind != "rte.conv") || strings.HasPrefix(kind, "pre@") {
		// execution continues past this point only if the check held
		v.assume(implies(v.reach[v.blk], goal))
	}
}

// ---------------------------------------------------------------- addresses (ground-instantiated axioms)

func (v *fnVC) fieldAddr(n *types.Named, fname string, base T) T {
	fn := v.P.fieldFn(n, fname)
	t := app(fn, base)
	if strings.Contains(t, "q_") {
		v.P.add("ax:"+fn, fmt.Sprintf("(assert (forall ((x Int)) (! (and (= (inv_%[1]s (%[1]s x)) x) (= (akind (%[1]s x)) %[2]d) (= (root (%[1]s x)) (root x))) :pattern ((%[1]s x)))))", fn, v.P.fieldKind(fn)))
		return t
	}
	if gk := fmt.Sprint(v.blk.Index, t); !v.grounded[gk] {
		v.grounded[gk] = true
		v.assume(and(eq(app("inv_"+fn, t), base), eq(app("akind", t), intLit(int64(v.P.fieldKind(fn)))), not(eq(t, "0")), eq(app("root", t), app("root", base))))
	}
	return t
}

// ix(off, i) = off + i, kept behind an uninterpreted symbol so that quantifier triggers over element
// addresses match syntactically (z3 reorders the arguments of +, which breaks matching on index sums).
func (v *fnVC) ix(off, i T) T {
	if off == "0" {
		return i
	}
	v.P.add("ix", "(declare-fun ix (Int Int) Int)\n(assert (forall ((o Int) (i Int)) (! (= (ix o i) (+ o i)) :pattern ((ix o i)))))")
	return app("ix", off, i)
}

func (v *fnVC) elemAddr(b, i T) T {
	if v.P.bv && (strings.HasPrefix(i, "(_ bv") || strings.HasPrefix(i, "#x")) {
		// 64-bit mode: element indices of the address space stay mathematical (only constant indices occur in
		// the functions verified in this mode: the argument arrays of variadic calls)
		i = app("bv2nat", i)
	}
	t := app("elem", b, i)
	if strings.Contains(t, "q_") {
		v.P.add("elemAxiom", "(assert (forall ((b Int) (i Int)) (! (and (= (ebase (elem b i)) b) (= (eidx (elem b i)) i) (= (akind (elem b i)) (- 1)) (= (root (elem b i)) (root b))) :pattern ((elem b i)))))")
		return t
	}
	if gk := fmt.Sprint(v.blk.Index, t); !v.grounded[gk] {
		v.grounded[gk] = true
		v.assume(and(eq(app("ebase", t), b), eq(app("eidx", t), i), eq(app("akind", t), "(- 1)"), eq(app("root", t), app("root", b)), not(eq(t, "0"))))
	}
	return t
}

// inputDesc describes one get-value term: which parameter (and field) it belongs to.
type inputDesc struct {
	term  T
	param string // parameter name
	field string // "" for the parameter itself
	kind  string // val | slen | sat
	idx   int
	ty    types.Type
}

func (v *fnVC) addInput(term T, param, field, kind string, idx int, ty types.Type) {
	v.params = append(v.params, term)
	v.inputs = append(v.inputs, inputDesc{term, param, field, kind, idx, ty})
}

type allocRec struct {
	t     T
	blk   *ssa.BasicBlock
	alloc *ssa.Alloc // non-nil for the cell of a named source variable
}

// frameAlts lists the ways a written address may be legitimate: it belongs to an object that was not
// allocated at entry, or it is covered by an item of the function's modifies clause. ok=false: the
// function claims no frame (or modifies *).
func (v *fnVC) frameAlts(addr T) ([]T, bool) { return v.frameAltsK(addr, false) }

// frameAltsK: mapRef says that addr is a map reference (an index of the map memories), which is never
// an element of a backing array.
func (v *fnVC) frameAltsK(addr T, mapRef bool) ([]T, bool) {
	if v.con == nil || (len(v.con.Modifies) == 0 && !v.con.Pure) {
		return nil, false // no frame claimed
	}
	v.memSrt[allocMem] = "Bool"
	freshRoot := not(sel(v.mem0(allocMem), app("root", addr)))
	freshBacking := and(eq(app("akind", addr), "(- 1)"), not(sel(v.mem0(allocMem), app("ebase", addr))))
	alts := []T{freshRoot, freshBacking}
	if mapRef {
		alts = []T{freshRoot}
	}
	env := v.entryEnv()
	env.useEntryOld, env.inOld, env.old = true, true, map[string]T{}
	for _, m := range v.con.Modifies {
		switch {
		case m == "nothing":
		case m == "*":
			return nil, false
		case strings.HasPrefix(m, "map("):
			ex, _ := parseExpr(m[4 : len(m)-1])
			t, _ := v.tr(ex, env)
			alts = append(alts, eq(addr, t))
		case strings.HasPrefix(m, "tree("):
			ex, _ := parseExpr(m[5 : len(m)-1])
			t, _ := v.tr(ex, env)
			v.P.add("inTree", inTreeDecl)
			alts = append(alts, app("inTree", t, app("root", addr)))
		case strings.HasPrefix(m, "obj("):
			// every struct field of the object a pointer / value refers to (not the elements of backing arrays)
			ex, _ := parseExpr(m[4 : len(m)-1])
			t, ty := v.tr(ex, env)
			alts = append(alts, and(eq(app("root", addr), v.refOf(t, ty)), not(eq(app("akind", addr), "(- 1)"))))
		case strings.HasPrefix(m, "cell("):
			// the whole cell a pointer (typically a captured variable) points to
			ex, _ := parseExpr(m[5 : len(m)-1])
			t, ty := v.tr(ex, env)
			if pt, ok := ty.Underlying().(*types.Pointer); ok {
				for _, leaf := range v.leafAddrs(t, pt.Elem()) {
					alts = append(alts, eq(addr, leaf))
				}
			}
		case strings.HasPrefix(m, "elems("):
			ex, _ := parseExpr(m[6 : len(m)-1])
			t, _ := v.tr(ex, env)
			alts = append(alts, eq(app("root", addr), app("root", app("sbase", t))), and(eq(app("akind", addr), "(- 1)"), eq(app("ebase", addr), app("sbase", t))))
		default:
			ex, _ := parseExpr(m)
			a, ty := v.lvalue(ex, env)
			for _, leaf := range v.leafAddrs(a, ty) {
				alts = append(alts, eq(addr, leaf))
			}
		}
	}
	return alts, true
}

// refOf: the heap object a pointer / value refers to (a sub-config value refers to its *Config).
func (v *fnVC) refOf(t T, ty types.Type) T {
	switch ty.Underlying().(type) {
	case *types.Interface:
		ref := app("ipay", t)
		if pkg := v.e.typesPkg(modPrefix); pkg != nil {
			if obj := pkg.Scope().Lookup("cfgSub"); obj != nil {
				subN, _, _ := v.isModStruct(obj.Type())
				tag := intLit(int64(v.P.tag(obj.Type())))
				c := app(structName(subN)+"_c", app("un"+v.boxFn(obj.Type()), app("ipay", t)))
				ref = ite(eq(app("itag", t), tag), c, ref)
			}
		}
		return ref
	case *types.Slice:
		return app("sbase", t)
	}
	return t
}

// frameCheck: a written address must be fresh or covered by the function's modifies clause.
func (v *fnVC) frameCheck(addr T, text string, pos token.Pos) {
	alts, ok := v.frameAlts(addr)
	if !ok {
		return
	}
	v.oblige("frame.store", text, or(alts...), pos)
}

// loopFrame: the frame obligations at every write site guarantee that a location which was allocated
// at entry and is outside the modifies clause still holds its entry value; this is assumed for the
// memories havoc'd at a loop head (otherwise every loop would have to restate it as an invariant).
func (v *fnVC) loopFrame(mems []string) {
	for _, m := range v.con.Modifies {
		if strings.HasPrefix(m, "tree(") {
			return // whole-subtree frames: the fact would be as expensive as the invariants it replaces
		}
	}
	altsA, ok := v.frameAlts("fa")
	if !ok {
		return
	}
	altsM, _ := v.frameAltsK("fa", true)
	for _, k := range mems {
		alts := altsA
		if strings.HasPrefix(k, "MD_") || strings.HasPrefix(k, "MV_") {
			alts = altsM
		}
		if strings.HasPrefix(k, "L_") || k == allocMem || k == deferMem || k == visMem || k == rvMem {
			continue
		}
		nm, ok := v.cur[k]
		if !ok {
			continue
		}
		v.assume(fmt.Sprintf("(forall ((fa Int)) (! (=> (not %s) (= (select %s fa) (select %s fa))) :pattern ((select %s fa))))", or(alts...), nm, v.mem0(k), nm))
	}
}

// frameCheckTree: a callee that may modify the whole tree of t is allowed only if the caller's
// frame contains tree(t) for the same t.
func (v *fnVC) frameCheckTree(t T, text string, pos token.Pos) {
	if _, claimed := v.frameAlts("0"); !claimed {
		return
	}
	env := v.entryEnv()
	env.useEntryOld, env.inOld, env.old = true, true, map[string]T{}
	// a configuration that did not exist at entry has no entry-state tree: whatever the callee touches is fresh
	v.memSrt[allocMem] = "Bool"
	alts := []T{and(not(eq(t, "0")), not(sel(v.mem0(allocMem), t))), eq(t, "0")}
	for _, m := range v.con.Modifies {
		if m == "*" {
			return
		}
		if strings.HasPrefix(m, "tree(") {
			ex, _ := parseExpr(m[5 : len(m)-1])
			mine, _ := v.tr(ex, env)
			v.P.add("inTree", inTreeDecl)
			v.P.add("subtree", "(declare-fun subtree (Int Int) Bool)")
			alts = append(alts, eq(mine, t), app("subtree", t, mine), fmt.Sprintf("(forall ((x Int)) (=> (inTree %s x) (inTree %s x)))", t, mine))
		}
	}
	v.oblige("frame.call", text, or(alts...), pos)
}

// leafAddrs enumerates the addresses of the leaves of a (possibly struct-typed) location.
func (v *fnVC) leafAddrs(addr T, t types.Type) []T {
	if n, st, ok := v.isModStruct(t); ok {
		var out []T
		for i := 0; i < st.NumFields(); i++ {
			out = append(out, v.leafAddrs(v.fieldAddr(n, st.Field(i).Name(), addr), st.Field(i).Type())...)
		}
		return out
	}
	return []T{addr}
}

const visMem = "VIS"

// mapMems returns the domain / value memories of a map type and the SMT sorts of key and value.
func (v *fnVC) mapMems(mt *types.Map) (md, mv, ks, vs string) {
	ks, vs = v.P.sortOf(mt.Key()), v.P.sortOf(mt.Elem())
	suffix := sanitize(ks + "_" + vs)
	md, mv = "MD_"+suffix, "MV_"+suffix
	v.memSrt[md] = fmt.Sprintf("(Array %s Bool)", ks)
	v.memSrt[mv] = fmt.Sprintf("(Array %s %s)", ks, vs)
	return
}

const allocMem = "ALLOC"

func (v *fnVC) allocCur() T {
	v.memSrt[allocMem] = "Bool"
	if t, ok := v.cur[allocMem]; ok {
		return t
	}
	return v.mem0(allocMem)
}

func (v *fnVC) allocd(t T) T { return sel(v.allocCur(), t) }

// distinctFromAllocs records a fresh object: not allocated before, allocated afterwards.
func (v *fnVC) distinctFromAllocs(a T) {
	cur := v.allocCur()
	v.assume(and(not(sel(cur, a)), eq(app("root", a), a)))
	if v.blk != v.fn.Blocks[0] || true {
		// fresh objects did not exist at entry (ALLOC only grows)
		v.assume(not(sel(v.mem0(allocMem), a)))
	}
	v.setMem(allocMem, sto(cur, a, "true"))
	v.allocs = append(v.allocs, allocRec{t: a, blk: v.blk})
}

// allocGrow models allocation by a callee: the allocated set may only grow.
func (v *fnVC) allocGrow() {
	cur := v.allocCur()
	nm := v.newConst(allocMem, "(Array Int Bool)")
	v.assume(fmt.Sprintf("(forall ((x Int)) (! (=> (select %s x) (select %s x)) :pattern ((select %s x)) :pattern ((select %s x))))", cur, nm, cur, nm))
	v.cur[allocMem] = nm
}

// ---------------------------------------------------------------- memory

func (v *fnVC) mem(sortName string) (string, T) {
	m := v.memNameFor(sortName)
	v.memSrt[m] = sortName
	if t, ok := v.cur[m]; ok {
		return m, t
	}
	return m, v.mem0(m)
}

func (v *fnVC) mem0(m string) T {
	v.P.add("mem0:"+m, fmt.Sprintf("(declare-const %s_0 (Array Int %s))", m, v.memSrt[m]))
	return m + "_0"
}

func (v *fnVC) setMem(m string, t T) {
	c := v.newConst(m, fmt.Sprintf("(Array Int %s)", v.memSrt[m]))
	v.assume(eq(c, t))
	v.cur[m] = c
}

func (v *fnVC) isModStruct(t types.Type) (*types.Named, *types.Struct, bool) {
	n, ok := t.(*types.Named)
	if !ok {
		if a, ok2 := t.(*types.Alias); ok2 {
			return v.isModStruct(types.Unalias(a))
		}
		return nil, nil, false
	}
	st, ok := n.Underlying().(*types.Struct)
	if !ok || !inModule(n) {
		return nil, nil, false
	}
	return n, st, true
}

// localOnly computes the Allocs whose address never escapes (only loaded from / stored to, possibly
// through FieldAddr/IndexAddr chains). Their cells live in a separate "L_" memory space so that
// stores to temporaries do not lengthen the store chains of heap memories.
func (v *fnVC) computeLocalOnly() {
	v.localOnly = map[*ssa.Alloc]bool{}
	var escapes func(val ssa.Value, seen map[ssa.Value]bool) bool
	escapes = func(val ssa.Value, seen map[ssa.Value]bool) bool {
		if seen[val] {
			return false
		}
		seen[val] = true
		refs := val.Referrers()
		if refs == nil {
			return true
		}
		for _, r := range *refs {
			switch x := r.(type) {
			case *ssa.DebugRef:
			case *ssa.UnOp:
				if x.Op != token.MUL {
					return true
				}
			case *ssa.Store:
				if x.Val == val {
					return true // the address itself is stored somewhere
				}
			case *ssa.FieldAddr:
				if escapes(x, seen) {
					return true
				}
			case *ssa.IndexAddr:
				if x.X != val || escapes(x, seen) {
					return true
				}
			default:
				return true
			}
		}
		return false
	}
	for _, b := range v.fn.Blocks {
		for _, in := range b.Instrs {
			if al, ok := in.(*ssa.Alloc); ok {
				if !escapes(al, map[ssa.Value]bool{}) {
					v.localOnly[al] = true
				}
			}
		}
	}
}

// privateCell: the cell of a source variable whose address never reaches a callee: it is only loaded,
// stored, selected from, or bound into closures that are themselves only deferred or called on the spot.
// No call can modify such a cell except those closures, which are applied by their contracts.
func (v *fnVC) privateCell(al *ssa.Alloc) bool {
	if !isVarCell(al) {
		return false
	}
	if r, ok := v.privCache[al]; ok {
		return r
	}
	var ok func(val ssa.Value, depth int) bool
	ok = func(val ssa.Value, depth int) bool {
		refs := val.Referrers()
		if refs == nil || depth > 4 {
			return false
		}
		for _, r := range *refs {
			switch x := r.(type) {
			case *ssa.DebugRef:
			case *ssa.UnOp:
				if x.Op != token.MUL {
					return false
				}
			case *ssa.Store:
				if x.Val == val {
					return false
				}
			case *ssa.FieldAddr:
				if !ok(x, depth+1) {
					return false
				}
			case *ssa.IndexAddr:
				if x.X != val || !ok(x, depth+1) {
					return false
				}
			case *ssa.Call:
				// the address is handed to a callee that is pure by contract (writes nothing that exists) and whose
				// results cannot carry a reference: the callee cannot keep the address, the cell stays private
				callee := x.Call.StaticCallee()
				if callee == nil || callee.Pkg == nil || x.Call.Value == val {
					return false
				}
				con := v.e.spec.Contracts[callee.Pkg.Pkg.Path()+"::"+callee.RelString(callee.Pkg.Pkg)]
				if con == nil || !con.Pure {
					return false
				}
				res := callee.Signature.Results()
				for i := 0; i < res.Len(); i++ {
					if !scalarOrString(res.At(i).Type()) {
						return false
					}
				}
			case *ssa.MakeClosure:
				crefs := x.Referrers()
				if crefs == nil {
					return false
				}
				for _, cr := range *crefs {
					switch y := cr.(type) {
					case *ssa.Defer:
						if y.Call.Value != x {
							return false
						}
					case *ssa.Call:
						if y.Call.Value != x {
							return false
						}
					case *ssa.DebugRef:
					default:
						return false
					}
				}
			default:
				return false
			}
		}
		return true
	}
	if v.privCache == nil {
		v.privCache = map[*ssa.Alloc]bool{}
	}
	r := ok(al, 0)
	v.privCache[al] = r
	return r
}

func scalarOrString(t types.Type) bool {
	b, ok := t.Underlying().(*types.Basic)
	return ok && b.Kind() != types.UnsafePointer
}

// keepPrivateCells: after a havoc from old to the current memories, private cells keep their content.
func (v *fnVC) keepPrivateCells(old map[string]T) {
	for _, ar := range v.allocs {
		if ar.alloc == nil || v.localOnly[ar.alloc] || !v.privateCell(ar.alloc) {
			continue
		}
		if ar.blk != v.blk && !v.anc[v.blk][ar.blk] {
			continue
		}
		elem := ar.alloc.Type().Underlying().(*types.Pointer).Elem()
		for _, lp := range v.leafPaths(elem) {
			cur, ok := v.cur[lp.mem]
			if !ok {
				continue
			}
			o, ok2 := old[lp.mem]
			if !ok2 {
				o = v.mem0(lp.mem)
			}
			if cur == o {
				continue
			}
			addr := lp.wrap(ar.t)
			v.assume(eq(sel(cur, addr), sel(o, addr)))
		}
	}
}

func (v *fnVC) spaceOf(addr ssa.Value) string {
	for {
		switch x := addr.(type) {
		case *ssa.FieldAddr:
			addr = x.X
		case *ssa.IndexAddr:
			addr = x.X
		case *ssa.Alloc:
			if v.localOnly[x] {
				return "L"
			}
			return ""
		default:
			return ""
		}
	}
}

func (v *fnVC) memNameFor(sortName string) string {
	m := v.P.memName(sortName)
	if v.space == "L" {
		m = "L" + m[1:]
	}
	return m
}

func (v *fnVC) load(addr T, t types.Type) T {
	return v.loadAt(addr, t, nil)
}

// loadAt loads using the given memory snapshot (nil = current).
func (v *fnVC) loadAt(addr T, t types.Type, snap map[string]T) T {
	if n, st, ok := v.isModStruct(t); ok {
		name := v.P.structSort(n, st)
		var fs []T
		for i := 0; i < st.NumFields(); i++ {
			f := st.Field(i)
			fs = append(fs, v.loadAt(v.fieldAddr(n, f.Name(), addr), f.Type(), snap))
		}
		if len(fs) == 0 {
			fs = []T{"0"}
		}
		return app("mk_"+name, fs...)
	}
	if at, ok := t.Underlying().(*types.Array); ok {
		// array value: build via lambda-free approach: fresh array with elementwise facts
		s := v.P.sortOf(t)
		c := v.newConst("arr", s)
		for i := int64(0); i < at.Len() && i < 8; i++ {
			v.assume(eq(sel(c, intLit(i)), v.loadAt(v.elemAddr(addr, intLit(i)), at.Elem(), snap)))
		}
		return c
	}
	s := v.P.sortOf(t)
	m := v.memNameFor(s)
	v.memSrt[m] = s
	var mt T
	if snap != nil {
		if x, ok := snap[m]; ok {
			mt = x
		} else {
			mt = v.mem0(m)
		}
	} else {
		_, mt = v.mem(s)
	}
	res := sel(mt, addr)
	if v.e.constGlobals[addr] && mt != v.mem0(m) {
		// a package-level variable that only package initialisation writes: every state holds its entry value
		if gk := fmt.Sprint(v.blk.Index, "cg", mt, addr); !v.grounded[gk] {
			v.grounded[gk] = true
			v.assume(eq(res, sel(v.mem0(m), addr)))
			if nk := "cgnote" + addr; !v.grounded[nk] {
				v.grounded[nk] = true
				v.notes = append(v.notes, "scanned: package variable "+strings.TrimPrefix(addr, "g_")+" is written only by package initialisation, so every state holds its entry value")
			}
		}
	}
	// heap well-formedness, instantiated on demand: a reference read from memory state S is
	// nil or allocated in the allocation state belonging to S
	if !strings.Contains(res, "q_") {
		var ref, ifaceTag T
		switch t.Underlying().(type) {
		case *types.Slice:
			ref = app("sbase", res)
			if gk := fmt.Sprint(v.blk.Index, "sz", res); !v.grounded[gk] {
				// size invariants of every slice value read from memory
				v.grounded[gk] = true
				v.assume(and(app("<=", "0", app("slen_", res)), app("<=", app("slen_", res), app("scap", res)), app("<=", "0", app("soff", res)), app("<=", app("+", app("soff", res), app("scap", res)), "9223372036854775807")))
			}
		case *types.Pointer, *types.Map, *types.Chan:
			ref = res
		case *types.Interface:
			ref = app("ipay", res)
			ifaceTag = app("itag", res)
		}
		if ref != "" {
			v.memSrt[allocMem] = "Bool"
			var al T
			if snap != nil {
				if x, ok := snap[allocMem]; ok {
					al = x
				} else {
					al = v.mem0(allocMem)
				}
			} else {
				al = v.allocCur()
			}
			entryRead := mt == v.mem0(m)
			if gk := fmt.Sprint(v.blk.Index, "wf", res, al); !v.grounded[gk] {
				v.grounded[gk] = true
				wf := func(res, ref, tag, al T) {
					if tag != "" {
						v.assume(implies(app("isptrtag", tag), or(eq(ref, "0"), and(sel(al, ref), sel(al, app("root", ref))))))
					} else {
						v.assume(or(eq(ref, "0"), and(sel(al, ref), sel(al, app("root", ref)))))
					}
				}
				wf(res, ref, ifaceTag, al)
				if entryRead && !strings.HasPrefix(m, "L_") {
					// read from the entry memory at a location of an object that existed at entry: what it holds was
					// allocated at entry. (Guarded by the location's root: the contract of a pure callee describes the
					// fresh objects it returns on the same memory version, and those hold later references.)
					a0 := v.mem0(allocMem)
					guard := sel(a0, app("root", addr))
					if ifaceTag != "" {
						v.assume(implies(and(guard, app("isptrtag", ifaceTag)), or(eq(ref, "0"), and(sel(a0, ref), sel(a0, app("root", ref))))))
					} else {
						v.assume(implies(guard, or(eq(ref, "0"), and(sel(a0, ref), sel(a0, app("root", ref))))))
					}
				}
				if m0 := v.mem0(m); mt != m0 && !strings.HasPrefix(m, "L_") {
					// the same location in the entry memory: whatever it held was allocated at entry (lets
					// the solver carry "allocated at entry" across store chains that did not touch it)
					r0 := sel(m0, addr)
					ref0, tag0 := T(""), T("")
					switch t.Underlying().(type) {
					case *types.Slice:
						ref0 = app("sbase", r0)
					case *types.Pointer, *types.Map, *types.Chan:
						ref0 = r0
					case *types.Interface:
						ref0, tag0 = app("ipay", r0), app("itag", r0)
					}
					a0 := v.mem0(allocMem)
					guard := sel(a0, app("root", addr))
					if tag0 != "" {
						v.assume(implies(and(guard, app("isptrtag", tag0)), or(eq(ref0, "0"), and(sel(a0, ref0), sel(a0, app("root", ref0))))))
					} else {
						v.assume(implies(guard, or(eq(ref0, "0"), and(sel(a0, ref0), sel(a0, app("root", ref0))))))
					}
				}
			}
		}
	}
	return res
}

func (v *fnVC) store(addr T, t types.Type, val T) {
	if n, st, ok := v.isModStruct(t); ok {
		name := v.P.structSort(n, st)
		for i := 0; i < st.NumFields(); i++ {
			f := st.Field(i)
			v.store(v.fieldAddr(n, f.Name(), addr), f.Type(), app(name+"_"+f.Name(), val))
		}
		return
	}
	if at, ok := t.Underlying().(*types.Array); ok {
		for i := int64(0); i < at.Len() && i < 8; i++ {
			v.store(v.elemAddr(addr, intLit(i)), at.Elem(), sel(val, intLit(i)))
		}
		return
	}
	s := v.P.sortOf(t)
	m, mt := v.mem(s)
	v.setMem(m, sto(mt, addr, val))
	// a value of an external struct type with exported fields (reflect.StructField, reflect.Method, ...): the code
	// may read its fields through their own addresses afterwards; they hold the field functions of the stored value
	if n, ok := t.(*types.Named); ok {
		if st, ok := n.Underlying().(*types.Struct); ok && n.Obj().Pkg() != nil && !strings.HasPrefix(n.Obj().Pkg().Path(), modPrefix) {
			for i := 0; i < st.NumFields(); i++ {
				f := st.Field(i)
				if !f.Exported() {
					continue
				}
				fn := "xf_" + sanitize(s+"_"+f.Name())
				fs := v.P.sortOf(f.Type())
				v.P.add(fn, fmt.Sprintf("(declare-fun %s (%s) %s)", fn, s, fs))
				fm, fmt_ := v.mem(fs)
				v.setMem(fm, sto(fmt_, v.fieldAddr(n, f.Name(), addr), app(fn, val)))
			}
		}
	}
}

// zeroOfMem: zero value of the leaf sort held by memory m (for make/zero-initialisation).
func (v *fnVC) zeroOfMem(m string, elemT types.Type) T {
	switch v.memSrt[m] {
	case "Int":
		return "0"
	case "Bool":
		return "false"
	case "Str":
		return v.P.strLit("")
	case "Slice":
		return "(mkS 0 0 0 0)"
	case "Iface":
		return "(mkI 0 0)"
	}
	return v.P.zero(elemT)
}

// ---------------------------------------------------------------- values

func (v *fnVC) rangeFact(t T, ty types.Type) T {
	if b, ok := ty.Underlying().(*types.Basic); ok && !v.P.bv {
		if bits, signed, ok := intInfo(b); ok {
			lo, hi := "0", ""
			switch {
			case signed && bits == 64:
				lo, hi = "(- 9223372036854775808)", "9223372036854775807"
			case !signed && bits == 64:
				hi = "18446744073709551615"
			case signed:
				lo, hi = intLit(-(1 << (bits - 1))), intLit((1<<(bits-1))-1)
			default:
				hi = intLit((1 << bits) - 1)
			}
			return and(app("<=", lo, t), app("<=", t, hi))
		}
	}
	switch ty.Underlying().(type) {
	case *types.Pointer, *types.Map, *types.Chan:
		rf := or(eq(t, "0"), and(v.allocd(t), v.allocd(app("root", t))))
		if pt, ok := ty.Underlying().(*types.Pointer); ok {
			if n, _, ok := v.isModStruct(pt.Elem()); ok && !v.e.interior[types.TypeString(n, nil)] {
				// a struct type that is never embedded by value: a pointer to it is the base of its own object
				rf = and(rf, or(eq(t, "0"), eq(app("root", t), t)))
			}
		}
		return rf
	case *types.Interface:
		rf := implies(app("isptrtag", app("itag", t)), or(eq(app("ipay", t), "0"), and(v.allocd(app("ipay", t)), v.allocd(app("root", app("ipay", t))))))
		if pkg := v.e.typesPkg(modPrefix); pkg != nil {
			nt, isNamed := ty.(*types.Named)
			if obj := pkg.Scope().Lookup("cfgSub"); obj != nil && !v.inRangeFact && isNamed && nt.Obj().Name() == "value" && !strings.HasPrefix(t, "q_") {
				// a sub-config travels as a boxed struct: the *Config it holds is nil or allocated
				v.inRangeFact = true
				subN, _, _ := v.isModStruct(obj.Type())
				tag := intLit(int64(v.P.tag(obj.Type())))
				c := app(structName(subN)+"_c", app("un"+v.boxFn(obj.Type()), app("ipay", t)))
				rf = and(rf, implies(eq(app("itag", t), tag), or(eq(c, "0"), and(v.allocd(c), v.allocd(app("root", c))))))
				v.inRangeFact = false
			}
		}
		if n, ok := ty.(*types.Named); ok && n.Obj().Name() == "Error" && inModule(n) {
			// a value of static type ucfg.Error is nil or its dynamic type implements Error (by typing)
			rf = and(rf, or(eq(t, "(mkI 0 0)"), app("impl_ucfg_Error", app("itag", t))))
		}
		return rf
	}
	if isString(ty) {
		return and(app(">=", app("slen", t), "0"), app("<=", app("slen", t), "9223372036854775807"))
	}
	if n, st, ok := v.isModStruct(ty); ok {
		// a struct value carries the type invariants of its fields
		v.P.structSort(n, st)
		var fs []T
		for i := 0; i < st.NumFields(); i++ {
			fs = append(fs, v.rangeFact(app(structName(n)+"_"+st.Field(i).Name(), t), st.Field(i).Type()))
		}
		return and(fs...)
	}
	if sl, ok := ty.Underlying().(*types.Slice); ok {
		// the backing array fits into the address space: cap * sizeof(elem) <= MaxInt64 (a run-time invariant of Go)
		capBound := "true"
		if es := types.SizesFor("gc", "amd64").Sizeof(sl.Elem()); es >= 2 && !v.P.bv {
			capBound = app("<=", app("scap", t), fmt.Sprint(int64(9223372036854775807)/es))
		}
		return and(capBound, app("<=", "0", app("slen_", t)), app("<=", app("slen_", t), app("-", app("scap", t), "0")), app("<=", "0", app("soff", t)), app("<=", "0", app("scap", t)), app("<=", app("+", app("soff", t), app("scap", t)), "9223372036854775807"), or(eq(app("sbase", t), "0"), and(v.allocd(app("sbase", t)), v.allocd(app("root", app("sbase", t))))), implies(eq(app("sbase", t), "0"), and(eq(app("scap", t), "0"), eq(app("soff", t), "0"))))
	}
	return "true"
}

func (v *fnVC) val(x ssa.Value) T {
	if t, ok := v.vals[x]; ok {
		return t
	}
	switch c := x.(type) {
	case *ssa.Const:
		return v.constant(c)
	case *ssa.Global:
		name := "g_" + sanitize(c.Pkg.Pkg.Name()+"_"+c.Name())
		v.P.add(name, fmt.Sprintf("(declare-const %s Int)\n(assert (> %s 0))\n(assert (= (akind %s) 0))", name, name, name))
		return name
	case *ssa.Function:
		name := "fn_" + sanitize(c.String())
		v.P.add(name, fmt.Sprintf("(declare-const %s Int)", name))
		return name
	case *ssa.Builtin:
		return "0"
	case *ssa.FreeVar:
		n := "fv_" + c.Name()
		v.P.add("fv:"+v.fn.String()+n, fmt.Sprintf("(declare-const |%s| %s)", n, v.P.sortOf(c.Type())))
		t := q(n)
		v.vals[x] = t
		if _, ok := c.Type().Underlying().(*types.Pointer); ok {
			// closure bindings are addresses of the enclosing function's variables: never nil
			v.P.add("fvnn:"+v.fn.String()+n, fmt.Sprintf("(assert (and (not (= |%s| 0)) (= (akind |%s|) 0) (= (root |%s|) |%s|)))", n, n, n, n))
		}
		return t
	}
	v.unsupported = append(v.unsupported, fmt.Sprintf("value %T %s used before definition", x, x.Name()))
	t := v.newConst("undef", v.P.sortOf(x.Type()))
	v.vals[x] = t
	return t
}

func (v *fnVC) constant(c *ssa.Const) T {
	t := c.Type()
	if c.Value == nil {
		return v.P.zero(t)
	}
	switch u := t.Underlying().(type) {
	case *types.Basic:
		switch {
		case u.Info()&types.IsBoolean != 0:
			if constant.BoolVal(c.Value) {
				return "true"
			}
			return "false"
		case u.Info()&types.IsInteger != 0:
			s := c.Value.ExactString()
			if v.P.bv {
				bits, _, _ := intInfo(u)
				if strings.HasPrefix(s, "-") {
					return fmt.Sprintf("(bvneg (_ bv%s %d))", s[1:], bits)
				}
				return fmt.Sprintf("(_ bv%s %d)", s, bits)
			}
			return bigLit(s)
		case u.Info()&types.IsFloat != 0:
			f, _ := constant.Float64Val(c.Value)
			if v.P.bv {
				if u.Kind() == types.Float32 {
					b := math.Float32bits(float32(f))
					return fmt.Sprintf("((_ to_fp 8 24) #x%08x)", b)
				}
				b := math.Float64bits(f)
				return fmt.Sprintf("((_ to_fp 11 53) #x%016x)", b)
			}
			name := fmt.Sprintf("f64c_%016x", math.Float64bits(f))
			v.P.add(name, fmt.Sprintf("(declare-const %s F64)", name))
			return name
		case u.Info()&types.IsString != 0:
			return v.P.strLit(constant.StringVal(c.Value))
		}
	}
	return v.P.zero(t)
}

func (v *fnVC) define(x ssa.Value, t T) {
	s := v.P.sortOf(x.Type())
	name := "v_" + x.Name()
	v.declare(name, s)
	v.assume(eq(q(name), t))
	v.vals[x] = q(name)
}

func (v *fnVC) havoc(x ssa.Value) T {
	s := v.P.sortOf(x.Type())
	name := "v_" + x.Name()
	v.declare(name, s)
	v.vals[x] = q(name)
	v.assume(v.rangeFact(q(name), x.Type()))
	return q(name)
}

// ---------------------------------------------------------------- CFG prep

func (v *fnVC) prepare() {
	fn := v.fn
	v.loops = map[*ssa.BasicBlock]*loopInfo{}
	v.isBack = map[[2]*ssa.BasicBlock]bool{}
	for _, b := range fn.Blocks {
		for _, s := range b.Succs {
			if s.Dominates(b) {
				v.isBack[[2]*ssa.BasicBlock{b, s}] = true
				li := v.loops[s]
				if li == nil {
					li = &loopInfo{header: s, body: map[*ssa.BasicBlock]bool{}, modMem: map[string]bool{}}
					v.loops[s] = li
				}
				li.back = append(li.back, b)
			}
		}
	}
	// loop bodies: natural loop = header + nodes that reach a back-edge source without passing header
	for _, li := range v.loops {
		li.body[li.header] = true
		var stack []*ssa.BasicBlock
		for _, b := range li.back {
			if !li.body[b] {
				li.body[b] = true
				stack = append(stack, b)
			}
		}
		for len(stack) > 0 {
			b := stack[len(stack)-1]
			stack = stack[:len(stack)-1]
			for _, p := range b.Preds {
				if !li.body[p] {
					li.body[p] = true
					stack = append(stack, p)
				}
			}
		}
		// position: smallest pos of any instruction in header (approx); use first instr with pos in body
		// source position of the loop: the first non-phi instruction of the header (the loop condition), which
		// follows source order; phis carry the position of the variable's declaration and would confuse two
		// loops over the same variable
		li.pos = token.NoPos
		for _, in := range li.header.Instrs {
			if _, isPhi := in.(*ssa.Phi); isPhi {
				continue
			}
			if p := in.Pos(); p.IsValid() && (!li.pos.IsValid() || p < li.pos) {
				li.pos = p
			}
		}
		if !li.pos.IsValid() {
			for b := range li.body {
				for _, in := range b.Instrs {
					if _, isPhi := in.(*ssa.Phi); isPhi {
						continue
					}
					if p := in.Pos(); p.IsValid() && (!li.pos.IsValid() || p < li.pos) {
						li.pos = p
					}
				}
			}
		}
	}
	// ordinals by source position
	var ls []*loopInfo
	for _, li := range v.loops {
		ls = append(ls, li)
	}
	sort.Slice(ls, func(i, j int) bool { return ls[i].pos < ls[j].pos })
	for i, li := range ls {
		li.ordinal = i + 1
	}
	// topological order ignoring back edges
	seen := map[*ssa.BasicBlock]bool{}
	var post []*ssa.BasicBlock
	var dfs func(b *ssa.BasicBlock)
	dfs = func(b *ssa.BasicBlock) {
		seen[b] = true
		for _, s := range b.Succs {
			if v.isBack[[2]*ssa.BasicBlock{b, s}] || seen[s] {
				continue
			}
			dfs(s)
		}
		post = append(post, b)
	}
	dfs(fn.Blocks[0])
	for i := len(post) - 1; i >= 0; i-- {
		v.order = append(v.order, post[i])
	}
	// ancestors
	v.anc = map[*ssa.BasicBlock]map[*ssa.BasicBlock]bool{}
	for _, b := range v.order {
		a := map[*ssa.BasicBlock]bool{}
		for _, p := range b.Preds {
			if v.isBack[[2]*ssa.BasicBlock{p, b}] {
				continue
			}
			a[p] = true
			for x := range v.anc[p] {
				a[x] = true
			}
		}
		v.anc[b] = a
	}
}

func (v *fnVC) edgeCond(p, b *ssa.BasicBlock) T {
	r := v.reach[p]
	if r == "" {
		return "false" // unreachable / unprocessed (e.g. recover block)
	}
	if iff, ok := p.Instrs[len(p.Instrs)-1].(*ssa.If); ok {
		c := v.val(iff.Cond)
		if p.Succs[0] == b && p.Succs[1] == b {
			return r
		}
		if p.Succs[0] == b {
			return and(r, c)
		}
		return and(r, not(c))
	}
	return r
}

// ---------------------------------------------------------------- main loop

// registerMemories pre-registers every memory sort reachable from the types used by the function,
// so that a "havoc everything" really covers memories first touched later.
func (v *fnVC) registerMemories() {
	seen := map[string]bool{}
	var walk func(t types.Type, depth int)
	walk = func(t types.Type, depth int) {
		if t == nil || depth > 6 {
			return
		}
		k := types.TypeString(t, nil)
		if seen[k] {
			return
		}
		seen[k] = true
		switch u := t.Underlying().(type) {
		case *types.Pointer:
			v.leafSorts(u.Elem(), map[string]bool{})
			walk(u.Elem(), depth+1)
		case *types.Slice:
			v.leafSorts(u.Elem(), map[string]bool{})
			walk(u.Elem(), depth+1)
		case *types.Array:
			walk(u.Elem(), depth+1)
		case *types.Struct:
			if _, _, ok := v.isModStruct(t); ok {
				for i := 0; i < u.NumFields(); i++ {
					walk(u.Field(i).Type(), depth+1)
				}
			}
		case *types.Tuple:
			for i := 0; i < u.Len(); i++ {
				walk(u.At(i).Type(), depth+1)
			}
		case *types.Interface:
			// dynamic types behind the repo's `value` interface: register the concrete value types
			if n, ok := t.(*types.Named); ok && n.Obj().Name() == "value" {
				for _, name := range []string{"cfgBool", "cfgInt", "cfgUint", "cfgFloat", "cfgString", "cfgNil", "cfgDynamic", "Config", "fields"} {
					if obj := n.Obj().Pkg().Scope().Lookup(name); obj != nil {
						walk(types.NewPointer(obj.Type()), depth+1)
					}
				}
			}
		}
	}
	for _, p := range v.fn.Params {
		walk(p.Type(), 0)
	}
	for _, fv := range v.fn.FreeVars {
		walk(fv.Type(), 0)
	}
	for _, b := range v.fn.Blocks {
		for _, in := range b.Instrs {
			if val, ok := in.(ssa.Value); ok {
				walk(val.Type(), 0)
			}
		}
	}
}

func (v *fnVC) run() {
	v.prepare()
	v.computeLocalOnly()
	v.registerMemories()
	fn := v.fn
	v.blk = fn.Blocks[0]
	// parameters
	for _, p := range fn.Params {
		name := "p_" + p.Name()
		v.P.add("param:"+name, fmt.Sprintf("(declare-const |%s| %s)", name, v.P.sortOf(p.Type())))
		v.vals[p] = q(name)
		v.addInput(q(name), p.Name(), "", "val", 0, p.Type())
		v.assume(v.rangeFact(q(name), p.Type()))
		// model inputs: scalar fields of pointed-to module structs, string lengths and first bytes
		if pt, ok := p.Type().Underlying().(*types.Pointer); ok {
			if n, st, ok := v.isModStruct(pt.Elem()); ok {
				for i := 0; i < st.NumFields(); i++ {
					f := st.Field(i)
					if b, ok := f.Type().Underlying().(*types.Basic); ok {
						t := v.loadAt(v.fieldAddr(n, f.Name(), q(name)), f.Type(), map[string]T{})
						if b.Info()&types.IsString != 0 {
							v.addInput(app("slen", t), p.Name(), f.Name(), "slen", 0, f.Type())
							for k := 0; k < 8; k++ {
								v.addInput(app("sat", t, intLit(int64(k))), p.Name(), f.Name(), "sat", k, f.Type())
							}
						} else {
							v.addInput(t, p.Name(), f.Name(), "val", 0, f.Type())
						}
					}
				}
			}
		}
		if nt, ok := p.Type().(*types.Named); ok && nt.Obj().Name() == "value" && inModule(nt) {
			// model inputs behind the value interface: the scalar content of each primitive value type
			for _, tn := range []string{"cfgBool", "cfgInt", "cfgUint", "cfgFloat", "cfgString"} {
				obj := nt.Obj().Pkg().Scope().Lookup(tn)
				if obj == nil {
					continue
				}
				n, st, ok := v.isModStruct(obj.Type())
				if !ok {
					continue
				}
				v.P.tag(types.NewPointer(obj.Type()))
				for i := 0; i < st.NumFields(); i++ {
					f := st.Field(i)
					if b, ok := f.Type().Underlying().(*types.Basic); ok {
						t := v.loadAt(v.fieldAddr(n, f.Name(), app("ipay", q(name))), f.Type(), map[string]T{})
						if b.Info()&types.IsString != 0 {
							v.addInput(app("slen", t), p.Name(), tn+"."+f.Name(), "slen", 0, f.Type())
							for k := 0; k < 8; k++ {
								v.addInput(app("sat", t, intLit(int64(k))), p.Name(), tn+"."+f.Name(), "sat", k, f.Type())
							}
						} else {
							v.addInput(t, p.Name(), tn+"."+f.Name(), "val", 0, f.Type())
						}
					}
				}
			}
		}
		if isString(p.Type()) {
			v.addInput(app("slen", q(name)), p.Name(), "", "slen", 0, p.Type())
			for k := 0; k < 8; k++ {
				v.addInput(app("sat", q(name), intLit(int64(k))), p.Name(), "", "sat", k, p.Type())
			}
		}
	}
	for _, fv := range fn.FreeVars {
		v.val(fv)
	}
	env := v.entryEnv()
	// preconditions
	if v.con != nil {
		for _, r := range v.con.Requires {
			t, _ := v.tr(r.E, env)
			v.assume(t)
		}
	}
	for _, b := range v.order {
		v.blk = b
		v.idx = 0
		v.enterBlock(b)
		if v.entrySeq == nil {
			v.entrySeq = map[*ssa.BasicBlock]int{}
		}
		v.entrySeq[b] = v.seq
		for _, in := range b.Instrs {
			v.idx++
			v.instr(in)
		}
		v.memOut[b] = v.cur
		// back edges leaving this block
		for _, s := range b.Succs {
			if v.isBack[[2]*ssa.BasicBlock{b, s}] {
				v.backEdge(b, s)
			}
		}
	}
	v.addAxioms()
	if v.P.seen["inTree"] {
		// inTree(c, x) speaks about the configuration trees as they are at function entry: an object allocated
		// later belongs to none of them (callee frames tree(t) are read the same way; DESIGN.md section 4)
		v.memSrt[allocMem] = "Bool"
		v.P.add("inTreeAlloc", fmt.Sprintf("(assert (forall ((c Int) (x Int)) (! (=> (inTree c x) (and (select %[1]s x) (select %[1]s c))) :pattern ((inTree c x)))))", v.mem0(allocMem)))
		v.notes = append(v.notes, "assume: tree(c) denotes the objects of c's tree at function entry (treeOK: configuration trees share no objects; each child is merged at most once per call)")
	}
}

// addAxioms adds the (heap-independent) axioms of the contract files that speak about ghost functions
// this function's obligations mention. They are listed as assumptions in the evidence.
func (v *fnVC) addAxioms() {
	for i, ax := range v.e.spec.Axioms {
		if v.con == nil || !hasStr(v.con.Uses, v.e.spec.AxiomGroups[i]) {
			continue // axioms are opt-in per function (//@ uses <group>): they cost every proof they are added to
		}
		ids := map[string]bool{}
		collectCalls(ax.C.E, ids)
		relevant := false
		for id := range ids {
			if v.P.seen["gh_"+id] {
				relevant = true
			}
		}
		if !relevant {
			continue
		}
		env := &Env{vars: map[string]bind{}, pkg: v.e.typesPkg(ax.Pkg)}
		save, saveBlk, saveCur := v.facts, v.blk, v.cur
		v.cur = map[string]T{} // axioms are heap-independent: only entry memories may be mentioned
		t, _ := v.tr(ax.C.E, env)
		v.facts, v.blk, v.cur = save, saveBlk, saveCur
		v.P.add(fmt.Sprintf("axiom:%d", i), "(assert "+t+")")
		v.notes = append(v.notes, "axiom: "+ax.C.Text)
	}
}

func collectCalls(e Expr, out map[string]bool) {
	switch x := e.(type) {
	case *Unary:
		collectCalls(x.X, out)
	case *Binary:
		collectCalls(x.X, out)
		collectCalls(x.Y, out)
	case *CallE:
		out[x.Fun] = true
		for _, a := range x.Args {
			collectCalls(a, out)
		}
	case *Select:
		collectCalls(x.X, out)
	case *IndexE:
		collectCalls(x.X, out)
		collectCalls(x.I, out)
	case *Quant:
		collectCalls(x.Body, out)
	case *TypeAssertE:
		collectCalls(x.X, out)
	}
}

func (v *fnVC) enterBlock(b *ssa.BasicBlock) {
	var preds []*ssa.BasicBlock
	for _, p := range b.Preds {
		if !v.isBack[[2]*ssa.BasicBlock{p, b}] && v.reach[p] != "" {
			preds = append(preds, p)
		}
	}
	if b == v.fn.Blocks[0] {
		v.reach[b] = "true"
		v.cur = map[string]T{}
		return
	}
	if len(preds) == 0 {
		v.reach[b] = ""
		v.cur = map[string]T{}
		return
	}
	var conds []T
	for _, p := range preds {
		conds = append(conds, v.edgeCond(p, b))
	}
	rn := v.fresh("reach_" + fmt.Sprint(b.Index))
	v.declare(rn, "Bool")
	v.assume(eq(q(rn), or(conds...)))
	v.reach[b] = q(rn)
	// merge memories
	keys := map[string]bool{}
	for _, p := range preds {
		for k := range v.memOut[p] {
			keys[k] = true
		}
	}
	v.cur = map[string]T{}
	var ks []string
	for k := range keys {
		ks = append(ks, k)
	}
	sort.Strings(ks)
	for _, k := range ks {
		var first T
		same := true
		vers := make([]T, len(preds))
		for i, p := range preds {
			t, ok := v.memOut[p][k]
			if !ok {
				t = v.mem0(k)
			}
			vers[i] = t
			if i == 0 {
				first = t
			} else if t != first {
				same = false
			}
		}
		if same {
			v.cur[k] = first
			continue
		}
		c := v.newConst(k, fmt.Sprintf("(Array Int %s)", v.memSrt[k]))
		for i := range preds {
			v.assume(implies(conds[i], eq(c, vers[i])))
		}
		v.cur[k] = c
	}
	if li := v.loops[b]; li != nil {
		v.loopHead(li, preds, conds)
	}
}

func (v *fnVC) instr(in ssa.Instruction) {
	switch x := in.(type) {
	case *ssa.DebugRef:
		return
	case *ssa.Phi:
		if v.loops[v.blk] != nil {
			return // handled in loopHead
		}
		var t T
		first := true
		for i := len(x.Edges) - 1; i >= 0; i-- {
			p := v.blk.Preds[i]
			if v.isBack[[2]*ssa.BasicBlock{p, v.blk}] || v.reach[p] == "" {
				continue
			}
			e := v.val(x.Edges[i])
			if first {
				t = e
				first = false
			} else {
				t = ite(v.edgeCond(p, v.blk), e, t)
			}
		}
		v.define(x, t)
	case *ssa.Alloc:
		a := v.newConst("alloc", "Int")
		v.assume(and(app(">", a, "0"), eq(app("akind", a), "0")))
		v.distinctFromAllocs(a)
		v.vals[x] = a
		if isVarCell(x) {
			// the cell of a source variable is never part of a configuration tree
			v.allocs[len(v.allocs)-1].alloc = x
			v.P.add("inTree", inTreeDecl)
			v.assume(fmt.Sprintf("(forall ((t Int)) (! (not (inTree t %s)) :pattern ((inTree t %s))))", a, a))
		}
		elem := x.Type().Underlying().(*types.Pointer).Elem()
		v.space = v.spaceOf(x)
		v.store(a, elem, v.P.zero(elem))
		v.space = ""
	case *ssa.FieldAddr:
		base := v.val(x.X)
		v.oblige("rte.nil", exprText(x), not(eq(base, "0")), x.Pos())
		pt := x.X.Type().Underlying().(*types.Pointer).Elem()
		n, _ := pt.(*types.Named)
		st := pt.Underlying().(*types.Struct)
		if n == nil {
			v.unsupported = append(v.unsupported, "FieldAddr on unnamed struct "+pt.String())
			v.havoc(x)
			return
		}
		// (external named structs, e.g. a local reflect.Method: the field has an address of its own; the value
		// stored there is unrelated to whole-struct stores, which is an over-approximation)
		v.define(x, v.fieldAddr(n, st.Field(x.Field).Name(), base))
	case *ssa.Field:
		st := x.X.Type().Underlying().(*types.Struct)
		if n, _, ok := v.isModStruct(x.X.Type()); ok {
			v.define(x, app(structName(n)+"_"+st.Field(x.Field).Name(), v.val(x.X)))
		} else {
			// field of an external struct value (reflect.Method, reflect.StructField, ...): an uninterpreted
			// function of the struct value, so that two reads of the same field agree
			fn := "xf_" + sanitize(v.P.sortOf(x.X.Type())+"_"+st.Field(x.Field).Name())
			v.P.add(fn, fmt.Sprintf("(declare-fun %s (%s) %s)", fn, v.P.sortOf(x.X.Type()), v.P.sortOf(x.Type())))
			v.define(x, app(fn, v.val(x.X)))
			v.assume(v.rangeFact(v.vals[x], x.Type()))
		}
	case *ssa.IndexAddr:
		idx := v.val(x.Index)
		switch u := x.X.Type().Underlying().(type) {
		case *types.Slice:
			s := v.val(x.X)
			v.oblige("rte.index", exprText(x), and(app("<=", "0", idx), app("<", idx, app("slen_", s))), x.Pos())
			v.define(x, v.elemAddr(app("sbase", s), v.ix(app("soff", s), idx)))
		case *types.Pointer:
			at := u.Elem().Underlying().(*types.Array)
			if _, isConst := x.Index.(*ssa.Const); !isConst {
				v.oblige("rte.index", exprText(x), and(app("<=", "0", idx), app("<", idx, intLit(at.Len()))), x.Pos())
			}
			v.define(x, v.elemAddr(v.val(x.X), idx))
		}
	case *ssa.Index:
		idx := v.val(x.Index)
		switch u := x.X.Type().Underlying().(type) {
		case *types.Array:
			v.oblige("rte.index", exprText(x), and(app("<=", "0", idx), app("<", idx, intLit(u.Len()))), x.Pos())
			v.define(x, sel(v.val(x.X), idx))
		case *types.Basic: // string indexing is an ssa.Index in x/tools >= 0.2x
			s := v.val(x.X)
			v.oblige("rte.strindex", exprText(x), and(app("<=", "0", idx), app("<", idx, app("slen", s))), x.Pos())
			v.define(x, app("sat", s, idx))
			v.assume(and(app("<=", "0", v.vals[x]), app("<", v.vals[x], "256")))
		default:
			v.unsupported = append(v.unsupported, "Index on "+x.X.Type().String())
			v.havoc(x)
		}
	case *ssa.Lookup:
		if mt, ok := x.X.Type().Underlying().(*types.Map); ok {
			md, mv, _, _ := v.mapMems(mt)
			m, k := v.val(x.X), v.val(x.Index)
			okT := and(not(eq(m, "0")), sel(sel(v.memOrEntry(md), m), k))
			valT := ite(okT, sel(sel(v.memOrEntry(mv), m), k), v.P.zero(mt.Elem()))
			if x.CommaOk {
				vn := v.newConst("lk_v", v.P.sortOf(mt.Elem()))
				v.assume(eq(vn, valT))
				v.assume(v.rangeFact(vn, mt.Elem()))
				on := v.newConst("lk_ok", "Bool")
				v.assume(eq(on, okT))
				v.tuples[x] = []T{vn, on}
			} else {
				v.define(x, valT)
				v.assume(v.rangeFact(v.vals[x], mt.Elem()))
			}
			return
		}
		if b, ok := x.X.Type().Underlying().(*types.Basic); ok && b.Info()&types.IsString != 0 {
			s, idx := v.val(x.X), v.val(x.Index)
			v.oblige("rte.strindex", exprText(x), and(app("<=", "0", idx), app("<", idx, app("slen", s))), x.Pos())
			v.define(x, app("sat", s, idx))
			v.assume(and(app("<=", "0", v.vals[x]), app("<", v.vals[x], "256")))
			return
		}
		v.unsupported = append(v.unsupported, "map lookup")
		v.havoc(x)
	case *ssa.UnOp:
		v.unop(x)
	case *ssa.BinOp:
		v.define(x, v.binop(x.Op, x.X, x.Y, x.Type(), x))
	case *ssa.Store:
		v.space = v.spaceOf(x.Addr)
		if v.space == "" {
			for _, leaf := range v.leafAddrs(v.val(x.Addr), x.Val.Type()) {
				v.frameCheck(leaf, exprText(x), x.Pos())
			}
		}
		v.store(v.val(x.Addr), x.Val.Type(), v.val(x.Val))
		v.space = ""
	case *ssa.Slice:
		v.sliceInstr(x)
	case *ssa.MakeSlice:
		b := v.newConst("mk", "Int")
		l, c := v.val(x.Len), v.val(x.Cap)
		v.oblige("rte.make", exprText(x), and(app("<=", "0", l), app("<=", l, c)), x.Pos())
		v.assume(and(app(">", b, "0")))
		v.distinctFromAllocs(b)
		et := x.Type().Underlying().(*types.Slice).Elem()
		for _, lp := range v.leafPaths(et) {
			mt := v.memOrEntry(lp.mem)
			nm := v.newConst(lp.mem, fmt.Sprintf("(Array Int %s)", v.memSrt[lp.mem]))
			v.needInverseAxioms(lp)
			ea := lp.unwrap("a")
			v.P.add("elemAxiom", "(assert (forall ((b Int) (i Int)) (! (and (= (ebase (elem b i)) b) (= (eidx (elem b i)) i) (= (akind (elem b i)) (- 1)) (= (root (elem b i)) (root b))) :pattern ((elem b i)))))")
			v.assume(fmt.Sprintf("(forall ((a Int)) (! (= (select %[1]s a) (ite (and (= %[5]s a) (= (ebase %[4]s) %[2]s) (= %[4]s (elem (ebase %[4]s) (eidx %[4]s)))) %[3]s (select %[6]s a))) :pattern ((select %[1]s a))))", nm, b, v.zeroOfMem(lp.mem, et), ea, lp.wrap(ea), mt))
			v.cur[lp.mem] = nm
		}
		v.define(x, app("mkS", b, "0", l, c))
	case *ssa.MakeInterface:
		v.define(x, v.makeIface(x.X))
	case *ssa.ChangeInterface, *ssa.ChangeType:
		var src ssa.Value
		if ci, ok := x.(*ssa.ChangeInterface); ok {
			src = ci.X
		} else {
			src = x.(*ssa.ChangeType).X
		}
		if v.P.sortOf(src.Type()) == v.P.sortOf(x.(ssa.Value).Type()) {
			v.define(x.(ssa.Value), v.val(src))
		} else {
			v.havoc(x.(ssa.Value))
		}
	case *ssa.Convert:
		v.convert(x)
	case *ssa.TypeAssert:
		v.typeAssert(x)
	case *ssa.Extract:
		if ts, ok := v.tuples[x.Tuple]; ok && x.Index < len(ts) && ts[x.Index] != "" {
			v.define(x, ts[x.Index])
		} else {
			v.havoc(x)
		}
	case *ssa.Call:
		v.call(x)
	case *ssa.Return:
		v.ret(x)
	case *ssa.If, *ssa.Jump:
	case *ssa.Panic:
		v.oblige("rte.panic", "panic", "false", x.Pos())
	case *ssa.MakeClosure:
		v.closures[x] = x
		v.havoc(x)
	case *ssa.Send:
		// channel send: no effect on modelled state (blocking/ordering not modelled)
	case *ssa.Defer:
		v.deferSite(x)
	case *ssa.RunDefers:
		v.runDefers(x)
	case *ssa.Go:
		v.notes = append(v.notes, "go statement skipped in caller: "+x.Call.Value.Name())
	case *ssa.MakeChan:
		v.havoc(x)
	case *ssa.MakeMap:
		mt := x.Type().Underlying().(*types.Map)
		md, _, ks, _ := v.mapMems(mt)
		r := v.newConst("map", "Int")
		v.assume(and(app(">", r, "0"), eq(app("akind", r), "0")))
		v.distinctFromAllocs(r)
		v.setMem(md, sto(v.memOrEntry(md), r, fmt.Sprintf("((as const (Array %s Bool)) false)", ks)))
		v.vals[x] = r
	case *ssa.MapUpdate:
		mt := x.Map.Type().Underlying().(*types.Map)
		md, mv, _, _ := v.mapMems(mt)
		m, k, val := v.val(x.Map), v.val(x.Key), v.val(x.Value)
		v.oblige("rte.nilmap", exprText(x), not(eq(m, "0")), x.Pos())
		v.frameCheck(m, exprText(x), x.Pos())
		v.setMem(md, sto(v.memOrEntry(md), m, sto(sel(v.memOrEntry(md), m), k, "true")))
		v.setMem(mv, sto(v.memOrEntry(mv), m, sto(sel(v.memOrEntry(mv), m), k, val)))
	case *ssa.Range:
		if mt, ok := x.X.Type().Underlying().(*types.Map); ok {
			_, _, ks, _ := v.mapMems(mt)
			v.memSrt[visMem] = fmt.Sprintf("(Array %s Bool)", ks)
			v.rangeOf[x] = x.X
			v.setMem(visMem, sto(v.memOrEntry(visMem), "1", fmt.Sprintf("((as const (Array %s Bool)) false)", ks)))
			v.vals[x] = "1"
			return
		}
		v.unsupported = append(v.unsupported, "range over "+x.X.Type().String())
		v.havoc(x)
	case *ssa.Next:
		rg, _ := x.Iter.(*ssa.Range)
		if rg == nil || v.rangeOf[rg] == nil {
			v.unsupported = append(v.unsupported, "next on non-map iterator")
			v.havoc(x)
			return
		}
		mt := rg.X.Type().Underlying().(*types.Map)
		md, mv, ks, vs := v.mapMems(mt)
		m := v.val(rg.X)
		dom := sel(v.memOrEntry(md), m)
		vis := sel(v.memOrEntry(visMem), "1")
		ok := v.newConst("nextok", "Bool")
		k := v.newConst("nextk", ks)
		v.assume(v.rangeFact(k, mt.Key()))
		// an arbitrary not-yet-visited key, or none left
		v.assume(implies(ok, and(sel(dom, k), not(sel(vis, k)), not(eq(m, "0")))))
		v.assume(implies(not(ok), fmt.Sprintf("(forall ((kk %s)) (=> (and (not (= %s 0)) (select %s kk)) (select %s kk)))", ks, m, dom, vis)))
		val := v.newConst("nextv", vs)
		v.assume(implies(ok, eq(val, sel(sel(v.memOrEntry(mv), m), k))))
		v.assume(v.rangeFact(val, mt.Elem()))
		v.setMem(visMem, sto(v.memOrEntry(visMem), "1", ite(ok, sto(vis, k, "true"), vis)))
		v.tuples[x] = []T{ok, k, val}
	case *ssa.Select:
		v.unsupported = append(v.unsupported, fmt.Sprintf("%T", x))
		if val, ok := in.(ssa.Value); ok {
			v.havoc(val)
		}

	default:
		v.unsupported = append(v.unsupported, fmt.Sprintf("%T", x))
		if val, ok := in.(ssa.Value); ok {
			v.havoc(val)
		}
	}
}

// isVarCell: the Alloc is the memory cell of a named source variable (not a composite literal, new(T), ...).
func isVarCell(x *ssa.Alloc) bool {
	switch x.Comment {
	case "", "complit", "new", "varargs", "slicelit", "makeslice", "append", "arraylit":
		return false
	}
	return !strings.Contains(x.Comment, ".") && !strings.Contains(x.Comment, " ")
}

func exprText(in ssa.Instruction) string {
	s := in.String()
	if len(s) > 60 {
		s = s[:60]
	}
	return s
}

func (v *fnVC) makeIface(x ssa.Value) T {
	t := x.Type()
	if _, ok := t.Underlying().(*types.Interface); ok {
		return v.val(x)
	}
	tag := intLit(int64(v.P.tag(t)))
	switch t.Underlying().(type) {
	case *types.Pointer:
		return app("mkI", tag, v.val(x))
	}
	bf := v.boxFn(t)
	bx := app(bf, v.val(x))
	if gk := fmt.Sprint(v.blk.Index, bx); !v.grounded[gk] {
		v.grounded[gk] = true
		v.assume(eq(app("un"+bf, bx), v.val(x)))
	}
	return app("mkI", tag, bx)
}

func (v *fnVC) boxFn(t types.Type) string {
	s := v.P.sortOf(t)
	name := "box_" + sanitize(types.TypeString(t, func(p *types.Package) string { return p.Name() }))
	if s == "Int" {
		v.P.add(name, fmt.Sprintf("(define-fun %s ((x Int)) Int x)\n(define-fun un%s ((x Int)) Int x)", name, name))
		return name
	}
	v.P.add(name, fmt.Sprintf("(declare-fun %[1]s (%[2]s) Int)\n(declare-fun un%[1]s (Int) %[2]s)", name, s))
	return name
}

func (v *fnVC) typeAssert(x *ssa.TypeAssert) {
	src := v.val(x.X)
	at := x.AssertedType
	var ok, val T
	if _, isIface := at.Underlying().(*types.Interface); isIface {
		pred := "impl_" + sanitize(types.TypeString(at, func(p *types.Package) string { return p.Name() }))
		if pred != "impl_ucfg_Error" { // declared by the prelude (with its facts per dynamic type)
			v.P.add(pred, fmt.Sprintf("(declare-fun %s (Int) Bool)", pred))
		}
		ok = and(not(eq(src, "(mkI 0 0)")), app(pred, app("itag", src)))
		val = src
	} else {
		tag := intLit(int64(v.P.tag(at)))
		ok = eq(app("itag", src), tag)
		if _, isPtr := at.Underlying().(*types.Pointer); isPtr {
			val = app("ipay", src)
		} else {
			val = app("un"+v.boxFn(at), app("ipay", src))
		}
	}
	if x.CommaOk {
		vn := v.newConst("ta_v", v.P.sortOf(at))
		v.assume(implies(ok, eq(vn, val)))
		v.assume(implies(not(ok), eq(vn, v.P.zero(at))))
		v.tuples[x] = []T{vn, ok}
		return
	}
	v.oblige("rte.assert", exprText(x), ok, x.Pos())
	v.define(x, val)
}

func (v *fnVC) unop(x *ssa.UnOp) {
	switch x.Op {
	case token.MUL:
		addr := v.val(x.X)
		if _, isGlobal := x.X.(*ssa.Global); !isGlobal {
			if _, isAlloc := x.X.(*ssa.Alloc); !isAlloc {
				if _, isFA := x.X.(*ssa.FieldAddr); !isFA {
					if _, isIA := x.X.(*ssa.IndexAddr); !isIA {
						v.oblige("rte.nil", exprText(x), not(eq(addr, "0")), x.Pos())
					}
				}
			}
		}
		v.space = v.spaceOf(x.X)
		t := v.load(addr, x.Type())
		v.space = ""
		v.define(x, t)
		v.assume(v.rangeFact(v.vals[x], x.Type()))
		if g, ok := x.X.(*ssa.Global); ok && strings.HasPrefix(g.Name(), "Err") {
			// sentinel errors: non-nil (assumption: not reassigned)
			v.assume(not(eq(v.vals[x], "(mkI 0 0)")))
			v.notes = append(v.notes, "assume: global "+g.Name()+" is a non-nil sentinel")
		}
	case token.ARROW:
		// channel receive: arbitrary value (and ok flag)
		if x.CommaOk {
			et := x.Type().(*types.Tuple).At(0).Type()
			val := v.newConst("recv", v.P.sortOf(et))
			v.assume(v.rangeFact(val, et))
			ok := v.newConst("recvok", "Bool")
			v.tuples[x] = []T{val, ok}
		} else {
			v.havoc(x)
		}
	case token.NOT:
		v.define(x, not(v.val(x.X)))
	case token.SUB:
		if v.P.bv {
			if isFloat(x.Type()) {
				v.define(x, app("fp.neg", v.val(x.X)))
			} else {
				v.define(x, app("bvneg", v.val(x.X)))
			}
		} else {
			v.define(x, v.wrap(x.Type(), app("-", v.val(x.X))))
		}
	default:
		v.unsupported = append(v.unsupported, "unop "+x.Op.String())
		v.havoc(x)
	}
}

func isFloat(t types.Type) bool {
	b, ok := t.Underlying().(*types.Basic)
	return ok && b.Info()&types.IsFloat != 0
}
func isString(t types.Type) bool {
	b, ok := t.Underlying().(*types.Basic)
	return ok && b.Info()&types.IsString != 0
}
func isInteger(t types.Type) bool {
	b, ok := t.Underlying().(*types.Basic)
	return ok && b.Info()&types.IsInteger != 0
}

func (v *fnVC) wrap(t types.Type, e T) T {
	b, ok := t.Underlying().(*types.Basic)
	if !ok {
		return e
	}
	bits, signed, ok := intInfo(b)
	if !ok {
		return e
	}
	if signed {
		return app(fmt.Sprintf("wrap%d", bits), e)
	}
	return app(fmt.Sprintf("wrapu%d", bits), e)
}

func (v *fnVC) binop(op token.Token, X, Y ssa.Value, rt types.Type, at ssa.Instruction) T {
	a, b := v.val(X), v.val(Y)
	xt := X.Type()
	if isString(xt) {
		switch op {
		case token.ADD:
			return v.concat(a, b)
		case token.EQL:
			return v.strEq(X, Y, a, b)
		case token.NEQ:
			return not(v.strEq(X, Y, a, b))
		}
		v.unsupported = append(v.unsupported, "string op "+op.String())
		return v.newConst("sop", v.P.sortOf(rt))
	}
	if isFloat(xt) {
		if v.P.bv {
			m := map[token.Token]string{token.ADD: "fp.add RNE", token.SUB: "fp.sub RNE", token.MUL: "fp.mul RNE", token.QUO: "fp.div RNE", token.LSS: "fp.lt", token.LEQ: "fp.leq", token.GTR: "fp.gt", token.GEQ: "fp.geq", token.EQL: "fp.eq"}
			if op == token.NEQ {
				return not(app("fp.eq", a, b))
			}
			return app(m[op], a, b)
		}
		fnm := "f64_" + sanitize(op.String())
		switch op {
		case token.LSS, token.LEQ, token.GTR, token.GEQ, token.EQL, token.NEQ:
			v.P.add(fnm, fmt.Sprintf("(declare-fun f64op_%d (F64 F64) Bool)", int(op)))
			return app(fmt.Sprintf("f64op_%d", int(op)), a, b)
		}
		v.P.add(fnm, fmt.Sprintf("(declare-fun f64op_%d (F64 F64) F64)", int(op)))
		return app(fmt.Sprintf("f64op_%d", int(op)), a, b)
	}
	if isInteger(xt) {
		bi := xt.Underlying().(*types.Basic)
		_, signed, _ := intInfo(bi)
		if v.P.bv {
			var m map[token.Token]string
			if signed {
				m = map[token.Token]string{token.ADD: "bvadd", token.SUB: "bvsub", token.MUL: "bvmul", token.QUO: "bvsdiv", token.REM: "bvsrem", token.LSS: "bvslt", token.LEQ: "bvsle", token.GTR: "bvsgt", token.GEQ: "bvsge", token.AND: "bvand", token.OR: "bvor", token.XOR: "bvxor", token.SHL: "bvshl", token.SHR: "bvashr"}
			} else {
				m = map[token.Token]string{token.ADD: "bvadd", token.SUB: "bvsub", token.MUL: "bvmul", token.QUO: "bvudiv", token.REM: "bvurem", token.LSS: "bvult", token.LEQ: "bvule", token.GTR: "bvugt", token.GEQ: "bvuge", token.AND: "bvand", token.OR: "bvor", token.XOR: "bvxor", token.SHL: "bvshl", token.SHR: "bvlshr"}
			}
			switch op {
			case token.EQL:
				return eq(a, b)
			case token.NEQ:
				return not(eq(a, b))
			case token.QUO, token.REM:
				bits, _, _ := intInfo(bi)
				v.oblige("rte.div", exprText(at), not(eq(b, fmt.Sprintf("(_ bv0 %d)", bits))), at.Pos())
			}
			return app(m[op], a, b)
		}
		switch op {
		case token.ADD:
			return v.wrap(rt, app("+", a, b))
		case token.SUB:
			return v.wrap(rt, app("-", a, b))
		case token.MUL:
			return v.wrap(rt, app("*", a, b))
		case token.QUO, token.REM:
			v.oblige("rte.div", exprText(at), not(eq(b, "0")), at.Pos())
			// truncated division
			qv := ite(app(">=", a, "0"), app("div", a, b), app("-", app("div", app("-", a), b)))
			if op == token.QUO {
				return v.wrap(rt, qv)
			}
			return app("-", a, app("*", b, qv))
		case token.LSS:
			return app("<", a, b)
		case token.LEQ:
			return app("<=", a, b)
		case token.GTR:
			return app(">", a, b)
		case token.GEQ:
			return app(">=", a, b)
		case token.EQL:
			return eq(a, b)
		case token.NEQ:
			return not(eq(a, b))
		}
		v.unsupported = append(v.unsupported, "int op "+op.String())
		return v.newConst("iop", v.P.sortOf(rt))
	}
	switch op {
	case token.EQL:
		return eq(a, b)
	case token.NEQ:
		return not(eq(a, b))
	case token.AND:
		return and(a, b)
	case token.OR:
		return or(a, b)
	}
	v.unsupported = append(v.unsupported, "op "+op.String()+" on "+xt.String())
	return v.newConst("op", v.P.sortOf(rt))
}

func (v *fnVC) strEq(X, Y ssa.Value, a, b T) T {
	lit := func(x ssa.Value) (string, bool) {
		if c, ok := x.(*ssa.Const); ok && c.Value != nil && c.Value.Kind() == constant.String {
			return constant.StringVal(c.Value), true
		}
		return "", false
	}
	if s, ok := lit(Y); ok {
		return strEqLit(a, s)
	}
	if s, ok := lit(X); ok {
		return strEqLit(b, s)
	}
	return eq(a, b)
}

func strEqLit(a T, s string) T {
	cs := []T{eq(app("slen", a), intLit(int64(len(s))))}
	for i := 0; i < len(s); i++ {
		cs = append(cs, eq(app("sat", a, intLit(int64(i))), intLit(int64(s[i]))))
	}
	return and(cs...)
}

func (v *fnVC) concat(a, b T) T {
	r := v.newConst("cat", "Str")
	v.assume(eq(app("slen", r), app("+", app("slen", a), app("slen", b))))
	v.assume(fmt.Sprintf("(forall ((k Int)) (! (=> (and (<= 0 k) (< k (slen %[1]s))) (= (sat %[3]s k) (sat %[1]s k))) :pattern ((sat %[3]s k))))", a, b, r))
	v.assume(fmt.Sprintf("(forall ((k Int)) (! (=> (and (<= 0 k) (< k (slen %[2]s))) (= (sat %[3]s (+ k (slen %[1]s))) (sat %[2]s k))) :pattern ((sat %[2]s k))))", a, b, r))
	return r
}

func (v *fnVC) sliceInstr(x *ssa.Slice) {
	lo := "0"
	if x.Low != nil {
		lo = v.val(x.Low)
	}
	switch u := x.X.Type().Underlying().(type) {
	case *types.Basic: // string
		s := v.val(x.X)
		hi := app("slen", s)
		if x.High != nil {
			hi = v.val(x.High)
		}
		if x.Low != nil || x.High != nil {
			v.oblige("rte.slice", exprText(x), and(app("<=", "0", lo), app("<=", lo, hi), app("<=", hi, app("slen", s))), x.Pos())
		}
		r := v.newConst("sub", "Str")
		v.assume(eq(app("slen", r), app("-", hi, lo)))
		v.assume(fmt.Sprintf("(forall ((k Int)) (! (=> (and (<= 0 k) (< k (slen %[1]s))) (= (sat %[1]s k) (sat %[2]s (+ k %[3]s)))) :pattern ((sat %[1]s k))))", r, s, lo))
		v.vals[x] = r
	case *types.Slice:
		s := v.val(x.X)
		hi := app("slen_", s)
		if x.High != nil {
			hi = v.val(x.High)
		}
		if x.Low != nil || x.High != nil {
			v.oblige("rte.slice", exprText(x), and(app("<=", "0", lo), app("<=", lo, hi), app("<=", hi, app("scap", s))), x.Pos())
		}
		v.define(x, app("mkS", app("sbase", s), app("+", app("soff", s), lo), app("-", hi, lo), app("-", app("scap", s), lo)))
		if lo != "0" {
			// element i of the new slice is element lo+i of the old one: stated over the index symbol so that
			// facts quantified over the old slice's elements are found from the new slice's element terms
			v.ix("1", "0")
			r := v.vals[x]
			v.assume(fmt.Sprintf("(forall ((i Int)) (! (= (ix (soff %[1]s) i) (ix (soff %[2]s) (+ %[3]s i))) :pattern ((ix (soff %[1]s) i))))", r, s, lo))
		}
	case *types.Pointer:
		at := u.Elem().Underlying().(*types.Array)
		hi := intLit(at.Len())
		if x.High != nil {
			hi = v.val(x.High)
		}
		if x.Low != nil || x.High != nil {
			v.oblige("rte.slice", exprText(x), and(app("<=", "0", lo), app("<=", lo, hi), app("<=", hi, intLit(at.Len()))), x.Pos())
		}
		v.define(x, app("mkS", v.val(x.X), lo, app("-", hi, lo), app("-", intLit(at.Len()), lo)))
	}
}

func (v *fnVC) convert(x *ssa.Convert) {
	src := v.val(x.X)
	st, dt := x.X.Type(), x.Type()
	sb, sok := st.Underlying().(*types.Basic)
	db, dok := dt.Underlying().(*types.Basic)
	if !sok || !dok {
		v.havoc(x)
		v.unsupported = append(v.unsupported, "convert "+st.String()+"->"+dt.String())
		return
	}
	sbits, ssigned, sint := intInfo(sb)
	dbits, dsigned, dint := intInfo(db)
	switch {
	case sint && dint:
		if v.P.bv {
			switch {
			case dbits == sbits:
				v.define(x, src)
			case dbits < sbits:
				v.define(x, fmt.Sprintf("((_ extract %d 0) %s)", dbits-1, src))
			case ssigned:
				v.define(x, fmt.Sprintf("((_ sign_extend %d) %s)", dbits-sbits, src))
			default:
				v.define(x, fmt.Sprintf("((_ zero_extend %d) %s)", dbits-sbits, src))
			}
		} else {
			v.define(x, v.wrap(dt, src))
		}
	case isFloat(st) && dint:
		if v.P.bv {
			// Go: out-of-range float->int conversion is implementation-defined: obligation rte.conv
			var lo, hi T
			fsort := "11 53"
			if sb.Kind() == types.Float32 {
				fsort = "8 24"
			}
			two := func(e int) T { // 2^e as FP via to_fp from real
				return fmt.Sprintf("((_ to_fp %s) RNE %s.0)", fsort, new2pow(e))
			}
			if dsigned {
				lo = app("fp.geq", src, app("fp.neg", two(dbits-1)))
				hi = app("fp.lt", src, two(dbits-1))
			} else {
				lo = app("fp.gt", src, fmt.Sprintf("((_ to_fp %s) RNE (- 1.0))", fsort))
				hi = app("fp.lt", src, two(dbits))
			}
			// no panic at run time: outside the range the result is implementation-defined, so the
			// obligation is not assumed afterwards and the value is left unconstrained there
			inr := and(not(app("fp.isNaN", src)), lo, hi)
			v.oblige("rte.conv", exprText(x), inr, x.Pos())
			res := v.havoc(x)
			if dsigned {
				v.assume(implies(inr, eq(res, fmt.Sprintf("((_ fp.to_sbv %d) RTZ %s)", dbits, src))))
			} else {
				v.assume(implies(inr, eq(res, fmt.Sprintf("((_ fp.to_ubv %d) RTZ %s)", dbits, src))))
			}
		} else {
			v.P.add("f2i", "(declare-fun f2i (F64) Int)")
			v.define(x, v.wrap(dt, app("f2i", src)))
		}
	case sint && isFloat(dt):
		if v.P.bv {
			fsort := "11 53"
			if db.Kind() == types.Float32 {
				fsort = "8 24"
			}
			if ssigned {
				v.define(x, fmt.Sprintf("((_ to_fp %s) RNE %s)", fsort, src))
			} else {
				v.define(x, fmt.Sprintf("((_ to_fp_unsigned %s) RNE %s)", fsort, src))
			}
		} else {
			v.P.add("i2f", "(declare-fun i2f (Int) F64)")
			v.define(x, app("i2f", src))
		}
	case isFloat(st) && isFloat(dt):
		if v.P.bv && sb.Kind() != db.Kind() {
			fsort := "11 53"
			if db.Kind() == types.Float32 {
				fsort = "8 24"
			}
			v.define(x, fmt.Sprintf("((_ to_fp %s) RNE %s)", fsort, src))
		} else {
			v.define(x, src)
		}
	default:
		v.unsupported = append(v.unsupported, "convert "+st.String()+"->"+dt.String())
		v.havoc(x)
	}
}

func new2pow(e int) string {
	// decimal string of 2^e
	n := []int{1}
	for i := 0; i < e; i++ {
		carry := 0
		for j := range n {
			d := n[j]*2 + carry
			n[j] = d % 10
			carry = d / 10
		}
		if carry > 0 {
			n = append(n, carry)
		}
	}
	var sb strings.Builder
	for i := len(n) - 1; i >= 0; i-- {
		sb.WriteByte(byte('0' + n[i]))
	}
	return sb.String()
}

package main

import (
	"context"
	"fmt"
	"os"
	"os/exec"
	"strings"
	"sync"
	"time"
)

// emit writes the SMT-LIB text of one obligation: prelude, the facts that dominate it, an optional
// restriction (known-finding region complement), reachability of its program point and the negated goal.
func (v *fnVC) emit(o *Obl, restrict T) string {
	var sb strings.Builder
	sb.WriteString("(set-option :produce-models true)\n")
	sb.WriteString("; obligation " + o.Name + "\n; " + strings.ReplaceAll(o.Text, "\n", " ") + "\n; " + o.Pos + "\n")
	sb.WriteString(v.P.text())
	sb.WriteString("\n")
	for _, f := range v.facts {
		if f.blk == o.blk {
			if f.idx >= o.idx {
				continue
			}
		} else if !v.anc[o.blk][f.blk] {
			continue
		}
		sb.WriteString(f.text)
		sb.WriteString("\n")
	}
	if restrict != "" {
		sb.WriteString("(assert " + restrict + ")\n")
	}
	sb.WriteString("(assert " + o.Reach + ")\n")
	sb.WriteString("(assert (not " + o.Goal + "))\n")
	sb.WriteString("(check-sat)\n")
	v.ghostInputs()
	if len(v.params) > 0 {
		sb.WriteString("(get-value (" + strings.Join(v.params, " ") + "))\n")
	}
	return sb.String()
}

// qfFragment drops every quantified line (used for vacuity covers and for candidate models).
func qfFragment(smt string) string {
	var sb strings.Builder
	for _, l := range strings.Split(smt, "\n") {
		if strings.Contains(l, "forall") || strings.Contains(l, "exists") {
			continue
		}
		sb.WriteString(l + "\n")
	}
	return sb.String()
}

type solverSpec struct {
	name string
	args func(timeout int, seed int) []string
}

var solverTable = []solverSpec{
	{"z3-new", func(t, seed int) []string {
		a := []string{fmt.Sprintf("-T:%d", t)}
		if seed != 0 {
			a = append(a, fmt.Sprintf("smt.random_seed=%d", seed), fmt.Sprintf("sat.random_seed=%d", seed))
		}
		return a
	}},
	{"z3", func(t, seed int) []string { return []string{fmt.Sprintf("-T:%d", t)} }},
	{"cvc5", func(t, seed int) []string { return []string{fmt.Sprintf("--tlimit=%d000", t), "--produce-models"} }},
}

type answer struct {
	status string // unsat sat unknown timeout error
	solver string
	out    string
	secs   float64
}

func runSolver(ctx context.Context, s solverSpec, file string, timeout, seed int) answer {
	t0 := time.Now()
	args := append(s.args(timeout, seed), file)
	cctx, cancel := context.WithTimeout(ctx, time.Duration(timeout+5)*time.Second)
	defer cancel()
	cmd := exec.CommandContext(cctx, s.name, args...)
	out, _ := cmd.Output() // stdout only: cvc5 writes logic warnings to stderr
	line := strings.TrimSpace(strings.SplitN(string(out), "\n", 2)[0])
	st := "unknown"
	switch {
	case line == "unsat":
		st = "unsat"
	case line == "sat":
		st = "sat"
	case line == "timeout" || cctx.Err() != nil:
		st = "timeout"
	case strings.HasPrefix(line, "(error") || strings.Contains(line, "rror"):
		st = "error"
	}
	return answer{st, s.name, string(out), time.Since(t0).Seconds()}
}

// race runs the given solvers concurrently and returns the first decisive answer (unsat or sat)
// together with every answer that arrived (for the two-back-end confirmation of the thorough tier
// all answers are awaited).
func race(file string, names []string, timeout, seed int, waitAll bool) (answer, []answer) {
	ctx, cancel := context.WithCancel(context.Background())
	defer cancel()
	ch := make(chan answer, len(solverTable))
	n := 0
	for _, s := range solverTable {
		use := false
		for _, nm := range names {
			if nm == s.name {
				use = true
			}
		}
		if !use {
			continue
		}
		n++
		go func(s solverSpec) { ch <- runSolver(ctx, s, file, timeout, seed) }(s)
	}
	var all []answer
	var best answer
	for i := 0; i < n; i++ {
		a := <-ch
		all = append(all, a)
		decisive := a.status == "unsat" || a.status == "sat"
		if decisive && (best.status != "unsat" && best.status != "sat") {
			best = a
			if !waitAll {
				return best, all
			}
		} else if best.status == "" || (best.status != "unsat" && best.status != "sat" && a.status == "error") {
			best = a
		}
	}
	return best, all
}

type job struct {
	o    *Obl
	v    *fnVC
	file string
	// results
	status  string // unsat | sat | unknown | timeout | error ; covers: ok | VACUOUS | unknown
	solver  string
	secs    float64
	out     string
	confirm int // number of back ends that answered unsat
	stage   int
	size    int
}

type solveCfg struct {
	t1, t2   int
	seed     int
	thorough bool
	par      int
}

// solveAll discharges the jobs in two stages: a fast pass with z3-new, then a race of all three
// back ends (longer timeout, seeded variant) for whatever was not proved.
func solveAll(jobs []*job, cfg solveCfg) float64 {
	var total float64
	var mu sync.Mutex
	stage := func(js []*job, par int, f func(j *job)) {
		var wg sync.WaitGroup
		sem := make(chan struct{}, par)
		for _, j := range js {
			wg.Add(1)
			go func(j *job) {
				defer wg.Done()
				sem <- struct{}{}
				defer func() { <-sem }()
				f(j)
			}(j)
		}
		wg.Wait()
	}
	stage(jobs, cfg.par, func(j *job) {
		a, _ := race(j.file, []string{"z3-new"}, cfg.t1, 0, false)
		mu.Lock()
		j.status, j.solver, j.secs, j.out, j.stage = a.status, a.solver, a.secs, a.out, 1
		if a.status == "unsat" {
			j.confirm = 1
		}
		total += a.secs
		mu.Unlock()
	})
	var rest []*job
	for _, j := range jobs {
		if j.o.Kind == "cover" {
			if j.status != "sat" && j.status != "unsat" {
				rest = append(rest, j)
			}
			continue
		}
		if j.status != "unsat" || cfg.thorough {
			rest = append(rest, j)
		}
	}
	par2 := cfg.par / 3
	if par2 < 1 {
		par2 = 1
	}
	stage(rest, par2, func(j *job) {
		names := []string{"z3", "cvc5"}
		if j.status != "unsat" && j.status != "sat" {
			names = append(names, "z3-new")
		}
		if j.status == "sat" && !cfg.thorough {
			return
		}
		seed := cfg.seed
		if seed == 0 {
			seed = 7
		}
		a, all := race(j.file, names, cfg.t2, seed, cfg.thorough)
		mu.Lock()
		defer mu.Unlock()
		for _, x := range all {
			total += x.secs
			if x.status == "unsat" {
				j.confirm++
			}
		}
		j.stage = 2
		if j.status == "unsat" || j.status == "sat" {
			return // keep the stage-1 verdict (and its model)
		}
		if a.status == "unsat" || a.status == "sat" || j.status == "" {
			j.status, j.solver, j.secs, j.out = a.status, a.solver, a.secs, a.out
		}
	})
	return total
}

func writeFile(path, content string) error {
	return os.WriteFile(path, []byte(content), 0o644)
}

// ghostInputs adds, once, the model terms needed by witness constructors: for every string parameter
// and every declared ghost function with an inverse, the ghost's value (and its guard) on that parameter.
func (v *fnVC) ghostInputs() {
	if v.ghostDone {
		return
	}
	v.ghostDone = true
	for _, p := range v.fn.Params {
		if !isString(p.Type()) {
			continue
		}
		for _, g := range v.e.spec.Ghosts {
			if g.Inverse == "" || len(g.Params) != 1 || g.Params[0] != "string" || !v.P.seen["gh_"+g.Name] {
				continue
			}
			v.addInput(app("gh_"+g.Name, v.vals[p]), p.Name(), "", "ghost:"+g.Name, 0, p.Type())
			if g.Guard != "" && v.P.seen["gh_"+g.Guard] {
				v.addInput(app("gh_"+g.Guard, v.vals[p]), p.Name(), "", "ghost:"+g.Guard, 0, p.Type())
			}
		}
	}
}

package main

import (
	"fmt"
	"go/types"
	"math"
	"strconv"
	"strings"
)

// parseGetValue parses "((t1 v1) (t2 v2) ...)" into values in order.
func parseGetValue(out string) []string {
	i := strings.Index(out, "((")
	if i < 0 {
		return nil
	}
	s := out[i+1:]
	var vals []string
	depth, start := 0, -1
	for j := 0; j < len(s); j++ {
		switch s[j] {
		case '(':
			if depth == 0 {
				start = j
			}
			depth++
		case ')':
			depth--
			if depth == 0 && start >= 0 {
				pair := s[start+1 : j]
				vals = append(vals, splitPair(pair))
				start = -1
			}
			if depth < 0 {
				return vals
			}
		}
	}
	return vals
}

// splitPair returns the value part of "term value".
func splitPair(p string) string {
	p = strings.TrimSpace(p)
	// term may be parenthesised or |quoted|
	if strings.HasPrefix(p, "(") {
		d := 0
		for i := 0; i < len(p); i++ {
			if p[i] == '(' {
				d++
			} else if p[i] == ')' {
				d--
				if d == 0 {
					return strings.TrimSpace(p[i+1:])
				}
			}
		}
	}
	if strings.HasPrefix(p, "|") {
		j := strings.Index(p[1:], "|")
		return strings.TrimSpace(p[j+2:])
	}
	k := strings.IndexAny(p, " \t")
	return strings.TrimSpace(p[k+1:])
}

func smtInt(v string) (int64, bool) {
	v = strings.TrimSpace(v)
	if strings.HasPrefix(v, "(- ") {
		n, err := strconv.ParseInt(strings.TrimSuffix(v[3:], ")"), 10, 64)
		return -n, err == nil
	}
	if strings.HasPrefix(v, "#x") {
		n, err := strconv.ParseUint(v[2:], 16, 64)
		return int64(n), err == nil
	}
	n, err := strconv.ParseInt(v, 10, 64)
	return n, err == nil
}

func smtFloat(v string) (uint64, bool) {
	v = strings.TrimSpace(v)
	switch {
	case strings.HasPrefix(v, "(_ NaN"):
		return math.Float64bits(math.NaN()), true
	case strings.HasPrefix(v, "(_ +oo"):
		return math.Float64bits(math.Inf(1)), true
	case strings.HasPrefix(v, "(_ -oo"):
		return math.Float64bits(math.Inf(-1)), true
	case strings.HasPrefix(v, "(_ +zero"):
		return 0, true
	case strings.HasPrefix(v, "(_ -zero"):
		return 1 << 63, true
	case strings.HasPrefix(v, "(fp "):
		f := strings.Fields(strings.Trim(v, "()"))
		if len(f) != 4 {
			return 0, false
		}
		sign, _ := strconv.ParseUint(f[1][2:], 2, 64)
		exp, _ := strconv.ParseUint(f[2][2:], 2, 64)
		var man uint64
		if strings.HasPrefix(f[3], "#x") {
			man, _ = strconv.ParseUint(f[3][2:], 16, 64)
		} else {
			man, _ = strconv.ParseUint(f[3][2:], 2, 64)
		}
		return sign<<63 | exp<<52 | man, true
	}
	return 0, false
}

// goLiteral builds a Go expression for a basic-typed model value.
func goLiteral(ty types.Type, val string, strLen int64, strBytes map[int]int64) (string, bool) {
	b, ok := ty.Underlying().(*types.Basic)
	if !ok {
		return "", false
	}
	switch {
	case b.Info()&types.IsBoolean != 0:
		return strings.TrimSpace(val), true
	case b.Info()&types.IsInteger != 0:
		n, ok := smtInt(val)
		if !ok {
			return "", false
		}
		if _, signed, _ := intInfo(b); !signed {
			return fmt.Sprintf("%d", uint64(n)), true
		}
		return fmt.Sprintf("%d", n), true
	case b.Info()&types.IsFloat != 0:
		bits, ok := smtFloat(val)
		if !ok {
			return "", false
		}
		return fmt.Sprintf("math.Float64frombits(0x%x)", bits), true
	case b.Info()&types.IsString != 0:
		if strLen > 64 {
			return "", false
		}
		var sb strings.Builder
		sb.WriteString("\"")
		for i := int64(0); i < strLen; i++ {
			c, ok := strBytes[int(i)]
			if !ok {
				c = 'a'
			}
			fmt.Fprintf(&sb, "\\x%02x", c&0xff)
		}
		sb.WriteString("\"")
		return sb.String(), true
	}
	return "", false
}


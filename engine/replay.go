package main

import (
	"fmt"
	"go/types"
	"math"
	"os"
	"os/exec"
	"path/filepath"
	"strconv"
	"strings"

	"golang.org/x/tools/go/ssa"
)

// parseGetValue parses "((t1 v1) (t2 v2) ...)" into values in order.
func parseGetValue(out string) []string {
	i := strings.Index(out, "((")
	if i < 0 {
		return nil
	}
	s := out[i+1:]
	var vals []string
	depth, start := 0, -1
	for j := 0; j < len(s); j++ {
		switch s[j] {
		case '(':
			if depth == 0 {
				start = j
			}
			depth++
		case ')':
			depth--
			if depth == 0 && start >= 0 {
				pair := s[start+1 : j]
				vals = append(vals, splitPair(pair))
				start = -1
			}
			if depth < 0 {
				return vals
			}
		}
	}
	return vals
}

// splitPair returns the value part of "term value".
func splitPair(p string) string {
	p = strings.TrimSpace(p)
	// term may be parenthesised or |quoted|
	if strings.HasPrefix(p, "(") {
		d := 0
		for i := 0; i < len(p); i++ {
			if p[i] == '(' {
				d++
			} else if p[i] == ')' {
				d--
				if d == 0 {
					return strings.TrimSpace(p[i+1:])
				}
			}
		}
	}
	if strings.HasPrefix(p, "|") {
		j := strings.Index(p[1:], "|")
		return strings.TrimSpace(p[j+2:])
	}
	k := strings.IndexAny(p, " \t")
	return strings.TrimSpace(p[k+1:])
}

func smtInt(v string) (int64, bool) {
	v = strings.TrimSpace(v)
	if strings.HasPrefix(v, "(- ") {
		n, err := strconv.ParseInt(strings.TrimSuffix(v[3:], ")"), 10, 64)
		return -n, err == nil
	}
	if strings.HasPrefix(v, "#x") {
		n, err := strconv.ParseUint(v[2:], 16, 64)
		return int64(n), err == nil
	}
	n, err := strconv.ParseInt(v, 10, 64)
	return n, err == nil
}

func smtFloat(v string) (uint64, bool) {
	v = strings.TrimSpace(v)
	switch {
	case strings.HasPrefix(v, "(_ NaN"):
		return math.Float64bits(math.NaN()), true
	case strings.HasPrefix(v, "(_ +oo"):
		return math.Float64bits(math.Inf(1)), true
	case strings.HasPrefix(v, "(_ -oo"):
		return math.Float64bits(math.Inf(-1)), true
	case strings.HasPrefix(v, "(_ +zero"):
		return 0, true
	case strings.HasPrefix(v, "(_ -zero"):
		return 1 << 63, true
	case strings.HasPrefix(v, "(fp "):
		f := strings.Fields(strings.Trim(v, "()"))
		if len(f) != 4 {
			return 0, false
		}
		sign, _ := strconv.ParseUint(f[1][2:], 2, 64)
		exp, _ := strconv.ParseUint(f[2][2:], 2, 64)
		var man uint64
		if strings.HasPrefix(f[3], "#x") {
			man, _ = strconv.ParseUint(f[3][2:], 16, 64)
		} else {
			man, _ = strconv.ParseUint(f[3][2:], 2, 64)
		}
		return sign<<63 | exp<<52 | man, true
	}
	return 0, false
}

// goLiteral builds a Go expression for a basic-typed model value.
func goLiteral(ty types.Type, val string, strLen int64, strBytes map[int]int64) (string, bool) {
	b, ok := ty.Underlying().(*types.Basic)
	if !ok {
		return "", false
	}
	switch {
	case b.Info()&types.IsBoolean != 0:
		return strings.TrimSpace(val), true
	case b.Info()&types.IsInteger != 0:
		n, ok := smtInt(val)
		if !ok {
			return "", false
		}
		if _, signed, _ := intInfo(b); !signed {
			return fmt.Sprintf("%d", uint64(n)), true
		}
		return fmt.Sprintf("%d", n), true
	case b.Info()&types.IsFloat != 0:
		bits, ok := smtFloat(val)
		if !ok {
			return "", false
		}
		return fmt.Sprintf("math.Float64frombits(0x%x)", bits), true
	case b.Info()&types.IsString != 0:
		if strLen > 64 {
			return "", false
		}
		var sb strings.Builder
		sb.WriteString("\"")
		for i := int64(0); i < strLen; i++ {
			c, ok := strBytes[int(i)]
			if !ok {
				c = 'a'
			}
			fmt.Fprintf(&sb, "\\x%02x", c&0xff)
		}
		sb.WriteString("\"")
		return sb.String(), true
	}
	return "", false
}

// buildReplay generates an in-package test calling fn with inputs from the model; returns file content.
func buildReplay(fn *ssa.Function, inputs []inputDesc, vals []string, o *Obl) (string, bool) {
	if len(vals) < len(inputs) {
		return "", false
	}
	type fieldVal struct {
		ty    types.Type
		val   string
		slen  int64
		bytes map[int]int64
	}
	byParam := map[string]map[string]*fieldVal{}
	get := func(p, f string, ty types.Type) *fieldVal {
		if byParam[p] == nil {
			byParam[p] = map[string]*fieldVal{}
		}
		if byParam[p][f] == nil {
			byParam[p][f] = &fieldVal{ty: ty, bytes: map[int]int64{}}
		}
		return byParam[p][f]
	}
	for i, in := range inputs {
		fv := get(in.param, in.field, in.ty)
		switch in.kind {
		case "val":
			fv.val = vals[i]
		case "slen":
			fv.slen, _ = smtInt(vals[i])
		case "sat":
			n, _ := smtInt(vals[i])
			fv.bytes[in.idx] = n
		}
	}
	pkg := fn.Pkg.Pkg
	qual := func(p *types.Package) string {
		if p == pkg {
			return ""
		}
		return p.Name()
	}
	var args []string
	var setup []string
	for _, p := range fn.Params {
		pt := p.Type()
		fields := byParam[p.Name()]
		if ptr, ok := pt.Underlying().(*types.Pointer); ok {
			if st, ok := ptr.Elem().Underlying().(*types.Struct); ok && fields != nil && len(fields) > 1 {
				var fs []string
				for i := 0; i < st.NumFields(); i++ {
					f := st.Field(i)
					if fv := fields[f.Name()]; fv != nil {
						if lit, ok := goLiteral(f.Type(), fv.val, fv.slen, fv.bytes); ok {
							fs = append(fs, fmt.Sprintf("%s: %s", f.Name(), lit))
						}
					}
				}
				args = append(args, fmt.Sprintf("&%s{%s}", types.TypeString(ptr.Elem(), qual), strings.Join(fs, ", ")))
				continue
			}
			args = append(args, "nil")
			continue
		}
		if fv := fields[""]; fv != nil {
			if lit, ok := goLiteral(pt, fv.val, fv.slen, fv.bytes); ok {
				if _, isNamed := pt.(*types.Named); isNamed {
					lit = fmt.Sprintf("%s(%s)", types.TypeString(pt, qual), lit)
				}
				args = append(args, lit)
				continue
			}
		}
		// struct value receiver with basic fields, e.g. idxField{i}
		if st, ok := pt.Underlying().(*types.Struct); ok && fields != nil {
			_ = st
		}
		args = append(args, fmt.Sprintf("*new(%s)", types.TypeString(pt, qual)))
	}
	_ = setup
	call := ""
	if fn.Signature.Recv() != nil {
		recvT := types.TypeString(fn.Signature.Recv().Type(), qual)
		call = fmt.Sprintf("(%s).%s(%s)", recvT, fn.Name(), strings.Join(args, ", "))
	} else {
		call = fmt.Sprintf("%s(%s)", fn.Name(), strings.Join(args, ", "))
	}
	nres := fn.Signature.Results().Len()
	lhs := ""
	if nres > 0 {
		var rs []string
		for i := 0; i < nres; i++ {
			rs = append(rs, fmt.Sprintf("r%d", i))
		}
		lhs = strings.Join(rs, ", ") + " := "
	}
	var sb strings.Builder
	fmt.Fprintf(&sb, "package %s\n\nimport (\n\t\"fmt\"\n\t\"math\"\n\t\"testing\"\n)\n\nvar _ = math.Pi\n\n", pkg.Name())
	fmt.Fprintf(&sb, "// replay of obligation %s\n// %s\nfunc TestVerifReplay(t *testing.T) {\n", o.Name, o.Pos)
	sb.WriteString("\tdefer func() {\n\t\tif r := recover(); r != nil {\n\t\t\tfmt.Printf(\"REPLAY-PANIC: %v\\n\", r)\n\t\t}\n\t}()\n")
	fmt.Fprintf(&sb, "\t%s%s\n", lhs, call)
	if nres > 0 {
		var rs []string
		for i := 0; i < nres; i++ {
			rs = append(rs, fmt.Sprintf("r%d", i))
		}
		fmt.Fprintf(&sb, "\tfmt.Printf(\"REPLAY-RETURNED: %s\\n\", %s)\n", strings.Repeat("%#v ", nres), strings.Join(rs, ", "))
	}
	sb.WriteString("}\n")
	return sb.String(), true
}

// runReplay injects the test with -overlay and runs it against repo.
func runReplay(repo string, fn *ssa.Function, content string, workDir string) string {
	os.MkdirAll(workDir, 0o755)
	testFile := filepath.Join(workDir, "zz_verif_replay_test.go")
	os.WriteFile(testFile, []byte(content), 0o644)
	// package directory of fn
	pos := fn.Prog.Fset.Position(fn.Pos())
	pkgDir := filepath.Dir(pos.Filename)
	ov := fmt.Sprintf("{\"Replace\": {%q: %q}}", filepath.Join(pkgDir, "zz_verif_replay_test.go"), testFile)
	ovFile := filepath.Join(workDir, "overlay.json")
	os.WriteFile(ovFile, []byte(ov), 0o644)
	cmd := exec.Command("go", "test", "-overlay", ovFile, "-vet=off", "-count=1", "-timeout", "60s", "-run", "^TestVerifReplay$", "-v", ".")
	cmd.Dir = pkgDir
	cmd.Env = append(os.Environ(), "GOFLAGS=-mod=mod", "GOPROXY=off", "GOSUMDB=off")
	out, _ := cmd.CombinedOutput()
	var keep []string
	for _, l := range strings.Split(string(out), "\n") {
		if strings.HasPrefix(l, "REPLAY-") || strings.Contains(l, "cannot") || strings.Contains(l, "undefined") || strings.HasPrefix(l, "FAIL") || strings.Contains(l, "panic:") {
			keep = append(keep, l)
		}
	}
	_ = repo
	return strings.Join(keep, " | ")
}

package main

import (
	"fmt"
	"go/types"
	"strings"
)

// Compilation of contract expressions to Go, used only by replays: the function's requires are
// checked on the constructed inputs and the failed ensures clause is evaluated on the real result.
// Integer arithmetic in contracts is mathematical, so + - * are lifted to math/big.

type goBind struct {
	expr string
	ty   types.Type
}

type goCompiler struct {
	e       *Engine
	v       *fnVC
	pkg     *types.Package
	qual    types.Qualifier
	imports map[string]bool
	vars    map[string]goBind
	olds    []string
	why     string
	n       int
	bound   map[string]bool
}

func (g *goCompiler) reset() { g.olds, g.why, g.bound = nil, "", map[string]bool{} }

func (g *goCompiler) fail(why string) (string, types.Type, bool) {
	if g.why == "" {
		g.why = why
	}
	return "", nil, false
}

func (g *goCompiler) compileBool(e Expr) (string, bool) {
	s, _, ok := g.comp(e)
	return s, ok
}

func isIntT(t types.Type) bool {
	if t == nil || isMathT(t) {
		return false
	}
	b, ok := t.Underlying().(*types.Basic)
	return ok && b.Info()&types.IsInteger != 0
}

func (g *goCompiler) lift(s string, t types.Type) string {
	g.imports["math/big"] = true
	if isMathT(t) {
		return s
	}
	if b, ok := t.Underlying().(*types.Basic); ok {
		if b.Info()&types.IsUntyped != 0 {
			return fmt.Sprintf("func() *big.Int { z, _ := new(big.Int).SetString(\"%s\", 0); return z }()", strings.TrimSpace(s))
		}
		if _, signed, ok := intInfo(b); ok && !signed {
			return fmt.Sprintf("new(big.Int).SetUint64(uint64(%s))", s)
		}
	}
	return fmt.Sprintf("big.NewInt(int64(%s))", s)
}

func (g *goCompiler) usesBound(e Expr) bool {
	ids := map[string]bool{}
	collectIdents(e, ids)
	if s, ok := e.(*SliceE); ok {
		collectIdents(s.X, ids)
	}
	for b := range g.bound {
		if ids[b] {
			return true
		}
	}
	return false
}

func (g *goCompiler) comp(e Expr) (string, types.Type, bool) {
	boolT := types.Typ[types.Bool]
	switch x := e.(type) {
	case *BoolLit:
		return fmt.Sprint(x.Val), boolT, true
	case *IntLit:
		return x.Val, untypedInt, true
	case *CharLit:
		return fmt.Sprint(x.Val), untypedInt, true
	case *StrLit:
		return "\"" + x.Val + "\"", types.Typ[types.String], true
	case *NilLit:
		return "nil", types.Typ[types.UntypedNil], true
	case *Ident:
		if b, ok := g.vars[x.Name]; ok {
			return b.expr, b.ty, true
		}
		if obj := g.pkg.Scope().Lookup(x.Name); obj != nil {
			switch obj.(type) {
			case *types.Const, *types.Var:
				return x.Name, obj.Type(), true
			}
		}
		return g.fail("unbound name " + x.Name)
	case *Unary:
		s, t, ok := g.comp(x.X)
		if !ok {
			return "", nil, false
		}
		if x.Op == "-" && isMathT(t) {
			return fmt.Sprintf("new(big.Int).Neg(%s)", s), t, true
		}
		return "(" + x.Op + s + ")", t, true
	case *Binary:
		return g.compBinary(x)
	case *Select:
		s, t, ok := g.comp(x.X)
		if !ok {
			return "", nil, false
		}
		obj, _, _ := types.LookupFieldOrMethod(t, true, g.pkg, x.Field)
		if f, ok := obj.(*types.Var); ok {
			return s + "." + x.Field, f.Type(), true
		}
		return g.fail("no field " + x.Field)
	case *IndexE:
		s, t, ok := g.comp(x.X)
		if !ok {
			return "", nil, false
		}
		i, _, ok := g.comp(x.I)
		if !ok {
			return "", nil, false
		}
		switch u := t.Underlying().(type) {
		case *types.Slice:
			return fmt.Sprintf("%s[%s]", s, i), u.Elem(), true
		case *types.Array:
			return fmt.Sprintf("%s[%s]", s, i), u.Elem(), true
		case *types.Map:
			return fmt.Sprintf("%s[%s]", s, i), u.Elem(), true
		case *types.Basic:
			return fmt.Sprintf("%s[%s]", s, i), types.Typ[types.Uint8], true
		}
		return g.fail("index on " + t.String())
	case *SliceE:
		s, t, ok := g.comp(x.X)
		if !ok {
			return "", nil, false
		}
		lo, hi := "", ""
		if x.Lo != nil {
			if lo, _, ok = g.comp(x.Lo); !ok {
				return "", nil, false
			}
		}
		if x.Hi != nil {
			if hi, _, ok = g.comp(x.Hi); !ok {
				return "", nil, false
			}
		}
		return fmt.Sprintf("%s[%s:%s]", s, lo, hi), t, true
	case *TypeAssertE:
		s, _, ok := g.comp(x.X)
		if !ok {
			return "", nil, false
		}
		ty := g.v.resolveType(x.Type, g.pkg)
		if i := strings.Index(x.Type, "."); i > 0 {
			for _, p := range g.e.tpkgs {
				if p.Name() == strings.TrimLeft(x.Type[:i], "*[]") {
					g.imports[p.Path()] = true
				}
			}
		}
		return fmt.Sprintf("%s.(%s)", s, x.Type), ty, true
	case *Quant:
		return g.compQuant(x)
	case *CallE:
		return g.compCall(x)
	}
	return g.fail(fmt.Sprintf("expression %T", e))
}

func (g *goCompiler) typeTest(tf *CallE, ty Expr, neg bool) (string, types.Type, bool) {
	s, _, ok := g.comp(tf.Args[0])
	if !ok {
		return "", nil, false
	}
	name := typeExprString(ty)
	if name == "" {
		return g.fail("typeof compared with a non-type")
	}
	if i := strings.Index(name, "."); i > 0 {
		for _, p := range g.e.tpkgs {
			if p.Name() == name[:i] {
				g.imports[p.Path()] = true
			}
		}
	}
	r := fmt.Sprintf("func() bool { _, ok := interface{}(%s).(%s); return ok }()", s, name)
	if neg {
		r = "!" + r
	}
	return r, types.Typ[types.Bool], true
}

func (g *goCompiler) compBinary(x *Binary) (string, types.Type, bool) {
	boolT := types.Typ[types.Bool]
	if x.Op == "==" || x.Op == "!=" {
		if c, ok := x.X.(*CallE); ok && c.Fun == "typeof" {
			return g.typeTest(c, x.Y, x.Op == "!=")
		}
		if c, ok := x.Y.(*CallE); ok && c.Fun == "typeof" {
			return g.typeTest(c, x.X, x.Op == "!=")
		}
	}
	a, at, ok := g.comp(x.X)
	if !ok {
		return "", nil, false
	}
	b, bt, ok := g.comp(x.Y)
	if !ok {
		return "", nil, false
	}
	switch x.Op {
	case "&&", "||":
		return fmt.Sprintf("(%s %s %s)", a, x.Op, b), boolT, true
	case "==>":
		return fmt.Sprintf("(!(%s) || (%s))", a, b), boolT, true
	case "<==>":
		return fmt.Sprintf("((%s) == (%s))", a, b), boolT, true
	case "++":
		return fmt.Sprintf("(%s + %s)", a, b), at, true
	}
	big := isMathT(at) || isMathT(bt)
	switch x.Op {
	case "==", "!=", "<", "<=", ">", ">=":
		if big {
			return fmt.Sprintf("(%s.Cmp(%s) %s 0)", g.lift(a, at), g.lift(b, bt), x.Op), boolT, true
		}
		if _, isSl := at.Underlying().(*types.Slice); isSl && x.Op != "<" {
			if _, isSl2 := bt.Underlying().(*types.Slice); isSl2 {
				// slice identity: same length and same first element (contract == on slices is header equality)
				r := fmt.Sprintf("(len(%[1]s) == len(%[2]s) && (len(%[1]s) == 0 || &%[1]s[0] == &%[2]s[0]))", a, b)
				if x.Op == "!=" {
					r = "!" + r
				}
				return r, boolT, true
			}
		}
		// plain integers of different Go types (e.g. int vs int64): compare mathematically
		if isIntT(at) && isIntT(bt) && !isUntyped(at) && !isUntyped(bt) && !types.Identical(at, bt) {
			return fmt.Sprintf("(%s.Cmp(%s) %s 0)", g.lift(a, at), g.lift(b, bt), x.Op), boolT, true
		}
		return fmt.Sprintf("(%s %s %s)", a, x.Op, b), boolT, true
	case "+", "-", "*":
		if isFloat(at) || isFloat(bt) {
			t := at
			if isUntyped(t) {
				t = bt
			}
			return fmt.Sprintf("(%s %s %s)", a, x.Op, b), t, true
		}
		if isUntyped(at) && isUntyped(bt) {
			return fmt.Sprintf("(%s %s %s)", a, x.Op, b), at, true
		}
		m := map[string]string{"+": "Add", "-": "Sub", "*": "Mul"}[x.Op]
		return fmt.Sprintf("new(big.Int).%s(%s, %s)", m, g.lift(a, at), g.lift(b, bt)), mathT, true
	case "/", "%":
		if big {
			return g.fail("division on mathematical integers")
		}
		t := at
		if isUntyped(t) {
			t = bt
		}
		return fmt.Sprintf("(%s %s %s)", a, x.Op, b), t, true
	}
	return g.fail("operator " + x.Op)
}

// bounds extracts lo <= v and v < hi (or v <= hi) from the conjuncts of a guard.
func splitConj(e Expr, out *[]Expr) {
	if b, ok := e.(*Binary); ok && b.Op == "&&" {
		splitConj(b.X, out)
		splitConj(b.Y, out)
		return
	}
	*out = append(*out, e)
}

func (g *goCompiler) compQuant(x *Quant) (string, types.Type, bool) {
	if x.Type != "int" && x.Type != "int64" {
		return g.fail("quantifier over " + x.Type)
	}
	var guard, body Expr
	if b, ok := x.Body.(*Binary); ok && b.Op == "==>" && x.Forall {
		guard, body = b.X, b.Y
	} else if !x.Forall {
		guard, body = x.Body, &BoolLit{true}
	} else {
		return g.fail("forall without a range guard")
	}
	var cs []Expr
	splitConj(guard, &cs)
	var lo, hi Expr
	hiIncl := false
	var rest []Expr
	for _, c := range cs {
		if b, ok := c.(*Binary); ok {
			if id, ok := b.Y.(*Ident); ok && id.Name == x.Var && b.Op == "<=" && lo == nil {
				lo = b.X
				continue
			}
			if id, ok := b.X.(*Ident); ok && id.Name == x.Var && (b.Op == "<" || b.Op == "<=") && hi == nil {
				hi, hiIncl = b.Y, b.Op == "<="
				continue
			}
		}
		rest = append(rest, c)
	}
	if lo == nil || hi == nil {
		return g.fail("quantifier range not of the form lo <= v && v < hi")
	}
	saved, had := g.vars[x.Var]
	ty := types.Typ[types.Int]
	if x.Type == "int64" {
		ty = types.Typ[types.Int64]
	}
	g.vars[x.Var] = goBind{"q_" + x.Var, ty}
	g.bound[x.Var] = true
	defer func() {
		delete(g.bound, x.Var)
		if had {
			g.vars[x.Var] = saved
		} else {
			delete(g.vars, x.Var)
		}
	}()
	los, _, ok := g.comp(lo)
	if !ok {
		return "", nil, false
	}
	his, _, ok := g.comp(hi)
	if !ok {
		return "", nil, false
	}
	cond := "true"
	for _, r := range rest {
		s, _, ok := g.comp(r)
		if !ok {
			return "", nil, false
		}
		cond += " && " + s
	}
	bs, _, ok := g.comp(body)
	if !ok {
		return "", nil, false
	}
	cmp := "<"
	if hiIncl {
		cmp = "<="
	}
	if x.Forall {
		return fmt.Sprintf("func() bool { for q_%[1]s := %[2]s(%[3]s); q_%[1]s %[4]s %[2]s(%[5]s); q_%[1]s++ { if (%[6]s) && !(%[7]s) { return false } }; return true }()", x.Var, x.Type, los, cmp, his, cond, bs), types.Typ[types.Bool], true
	}
	return fmt.Sprintf("func() bool { for q_%[1]s := %[2]s(%[3]s); q_%[1]s %[4]s %[2]s(%[5]s); q_%[1]s++ { if (%[6]s) && (%[7]s) { return true } }; return false }()", x.Var, x.Type, los, cmp, his, cond, bs), types.Typ[types.Bool], true
}

func (g *goCompiler) compCall(x *CallE) (string, types.Type, bool) {
	boolT := types.Typ[types.Bool]
	arg := func(i int) (string, types.Type, bool) { return g.comp(x.Args[i]) }
	switch x.Fun {
	case "old":
		inner := x.Args[0]
		if g.usesBound(inner) {
			// old(X[i]) with a bound i: snapshot X as a whole and index the snapshot
			if ix, ok := inner.(*IndexE); ok && !g.usesBound(ix.X) {
				s, t, ok := g.comp(&CallE{Fun: "old", Args: []Expr{ix.X}})
				if !ok {
					return "", nil, false
				}
				i, _, ok := g.comp(ix.I)
				if !ok {
					return "", nil, false
				}
				if sl, ok := t.Underlying().(*types.Slice); ok {
					return fmt.Sprintf("%s[%s]", s, i), sl.Elem(), true
				}
			}
			return g.fail("old() over a bound variable")
		}
		s, t, ok := g.comp(inner)
		if !ok {
			return "", nil, false
		}
		g.n++
		name := fmt.Sprintf("old%d", g.n)
		if sl, ok := t.Underlying().(*types.Slice); ok {
			// snapshot the elements too: the call may write them in place
			g.olds = append(g.olds, fmt.Sprintf("%s := append([]%s(nil), %s...)", name, types.TypeString(sl.Elem(), g.qual), s))
		} else {
			g.olds = append(g.olds, fmt.Sprintf("%s := %s", name, s))
		}
		g.olds = append(g.olds, "_ = "+name)
		return name, t, true
	case "len", "cap":
		s, _, ok := arg(0)
		if !ok {
			return "", nil, false
		}
		return fmt.Sprintf("%s(%s)", x.Fun, s), types.Typ[types.Int], true
	case "math":
		s, t, ok := arg(0)
		if !ok {
			return "", nil, false
		}
		return g.lift(s, t), mathT, true
	case "mathlit":
		l := x.Args[0].(*IntLit)
		return g.lift(l.Val, untypedInt), mathT, true
	case "isNaN":
		s, _, ok := arg(0)
		return fmt.Sprintf("math.IsNaN(float64(%s))", s), boolT, ok
	case "isInf":
		s, _, ok := arg(0)
		return fmt.Sprintf("math.IsInf(float64(%s), 0)", s), boolT, ok
	case "same":
		a, at, ok := arg(0)
		if !ok {
			return "", nil, false
		}
		b, _, ok := arg(1)
		if isFloat(at) {
			return fmt.Sprintf("(math.Float64bits(float64(%s)) == math.Float64bits(float64(%s)) || (math.IsNaN(float64(%s)) && math.IsNaN(float64(%s))))", a, b, a, b), boolT, ok
		}
		return fmt.Sprintf("(%s == %s)", a, b), boolT, ok
	case "f2i64":
		s, _, ok := arg(0)
		return fmt.Sprintf("int64(math.Trunc(float64(%s)))", s), types.Typ[types.Int64], ok
	case "f2u64":
		s, _, ok := arg(0)
		return fmt.Sprintf("uint64(math.Trunc(float64(%s)))", s), types.Typ[types.Uint64], ok
	case "truncRTZ":
		s, t, ok := arg(0)
		return fmt.Sprintf("math.Trunc(%s)", s), t, ok
	case "fps", "fpu":
		s, _, ok := arg(0)
		return fmt.Sprintf("float64(%s)", s), types.Typ[types.Float64], ok
	case "pow2f":
		l := x.Args[0].(*IntLit)
		return fmt.Sprintf("math.Ldexp(1, %s)", l.Val), types.Typ[types.Float64], true
	case "has":
		m, _, ok := arg(0)
		if !ok {
			return "", nil, false
		}
		k, _, ok := arg(1)
		return fmt.Sprintf("func() bool { _, ok := %s[%s]; return ok }()", m, k), boolT, ok
	case "isNilVal":
		s, _, ok := arg(0)
		return fmt.Sprintf("func() bool { if %[1]s == nil { return true }; _, ok := %[1]s.(*cfgNil); return ok }()", s), boolT, ok
	case "isTyped":
		s, _, ok := arg(0)
		if g.pkg.Name() == "ucfg" {
			return fmt.Sprintf("func() bool { if %[1]s == nil { return true }; _, ok := interface{}(%[1]s).(Error); return ok }()", s), boolT, ok
		}
		g.imports[modPrefix] = true
		return fmt.Sprintf("func() bool { if %[1]s == nil { return true }; _, ok := interface{}(%[1]s).(ucfg.Error); return ok }()", s), boolT, ok
	case "toAny":
		s, _, ok := arg(0)
		return fmt.Sprintf("interface{}(%s)", s), types.NewInterfaceType(nil, nil), ok
	case "deref":
		s, t, ok := arg(0)
		if !ok {
			return "", nil, false
		}
		return "(*" + s + ")", t.Underlying().(*types.Pointer).Elem(), true
	}
	// ghost function with an executable definition ghost_<name> in the package (ghost_verif.go)
	if obj, ok := g.pkg.Scope().Lookup("ghost_" + x.Fun).(*types.Func); ok {
		var as []string
		for i := range x.Args {
			s, _, ok := arg(i)
			if !ok {
				return "", nil, false
			}
			as = append(as, s)
		}
		sig := obj.Type().(*types.Signature)
		if sig.Results().Len() != 1 {
			return g.fail("ghost_" + x.Fun + " must return one value")
		}
		return fmt.Sprintf("ghost_%s(%s)", x.Fun, strings.Join(as, ", ")), sig.Results().At(0).Type(), true
	}
	return g.fail("contract function " + x.Fun + " has no executable definition")
}

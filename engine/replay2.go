package main

import (
	"encoding/json"
	"fmt"
	"go/types"
	"os"
	"os/exec"
	"path/filepath"
	"strings"

	"golang.org/x/tools/go/ssa"
)

type ReplayResult struct {
	Path       string
	Reproduced bool
	Verdict    string
}

type ReplayFile struct {
	Property     string `json:"property"`
	Obligation   string `json:"obligation"`
	Kind         string `json:"kind"`
	Clause       string `json:"clause"`
	Position     string `json:"position"`
	Function     string `json:"function"`
	Status       string `json:"solver_status"`
	Solver       string `json:"solver"`
	SolverOutput string `json:"solver_output"`
	SMTFile      string `json:"smt_file"`
	ModelSource  string `json:"model_source"` // model | candidate (quantifier-free fragment) | none
	TestSource   string `json:"test_source,omitempty"`
	PackageDir   string `json:"package_dir,omitempty"` // relative to the repository root
	RealOutput   string `json:"real_code_output,omitempty"`
	Reproduced   bool   `json:"reproduced"`
	Verdict      string `json:"verdict"`
}

var panicKinds = map[string][]string{
	"rte.index":    {"index out of range"},
	"rte.strindex": {"index out of range"},
	"rte.slice":    {"slice bounds out of range"},
	"rte.nil":      {"nil pointer dereference", "invalid memory address"},
	"rte.nilmap":   {"assignment to entry in nil map"},
	"rte.assert":   {"interface conversion"},
	"rte.div":      {"divide by zero"},
	"rte.make":     {"makeslice", "out of range"},
	"rte.panic":    {""},
	"rte.extern":   {"reflect:", "reflect."},
}

// replayViolation turns the solver's counterexample of a failed obligation into an in-package test,
// runs it against the real code (go test -overlay) and records everything in a replay file.
func replayViolation(e *Engine, j *job, prop, dir string, cfg solveCfg) ReplayResult {
	os.MkdirAll(dir, 0o755)
	base := sanitize(j.o.Name)
	if len(base) > 120 {
		base = base[:120]
	}
	path := filepath.Join(dir, base+".json")
	out := j.out
	if len(out) > 6000 {
		out = out[:6000] + "\n...[truncated]"
	}
	rf := &ReplayFile{Property: prop, Obligation: j.o.Name, Kind: j.o.Kind, Clause: j.o.Text, Position: relPos(j.o.Pos, e.repo), Function: j.v.fn.String(), Status: j.status, Solver: j.solver, SolverOutput: out, ModelSource: "none"}
	// keep the SMT file next to the replay (work directories are rewritten by the next run)
	smtCopy := filepath.Join(dir, base+".smt2")
	if data, err := os.ReadFile(j.file); err == nil {
		os.WriteFile(smtCopy, data, 0o644)
		rf.SMTFile = smtCopy
	}
	finish := func(verdict string, reproduced bool) ReplayResult {
		rf.Verdict, rf.Reproduced = verdict, reproduced
		data, _ := json.MarshalIndent(rf, "", " ")
		os.WriteFile(path, append(data, '\n'), 0o644)
		return ReplayResult{Path: path, Reproduced: reproduced, Verdict: verdict}
	}
	model := ""
	switch j.status {
	case "sat":
		model, rf.ModelSource = j.out, "model"
	default:
		// the full query is undecided (quantified background facts): take a candidate model from the
		// quantifier-free fragment; it is believed only if the replay reproduces on the real code
		data, _ := os.ReadFile(j.file)
		qf := strings.TrimSuffix(j.file, ".smt2") + "_qf.smt2"
		writeFile(qf, qfFragment(string(data)))
		a, _ := race(qf, []string{"z3-new"}, cfg.t1+6, 0, false)
		if a.status == "sat" {
			model, rf.ModelSource = a.out, "candidate (quantifier-free fragment)"
		}
	}
	if model == "" {
		return finish(fmt.Sprintf("obligation not discharged (%s), solver gave no counterexample", j.status), false)
	}
	vals := parseGetValue(model)
	content, ok := buildReplayTest(e, j.v, vals, j.o)
	if !ok {
		return finish("counterexample found but its inputs are not constructible from scalars (heap-shaped); solver output attached", false)
	}
	rf.TestSource = content
	pkgDir := filepath.Dir(e.prog.Fset.Position(j.v.fn.Pos()).Filename)
	rel, _ := filepath.Rel(e.repo, pkgDir)
	rf.PackageDir = rel
	res := runReplayTest(e.repo, rel, content)
	rf.RealOutput = res
	return finish(judgeReplay(j.o.Kind, res))
}

func judgeReplay(kind, res string) (string, bool) {
	short := res
	if len(short) > 400 {
		short = short[:400] + "..."
	}
	short = strings.ReplaceAll(short, "\n", " | ")
	if strings.Contains(res, "REPLAY-REQUIRES-VIOLATED") {
		return "constructed inputs do not satisfy the function's requires; not a valid replay: " + short, false
	}
	if strings.HasPrefix(kind, "rte.extern@") {
		kind = "rte.extern"
	}
	if strings.HasPrefix(kind, "rte.") {
		if i := strings.Index(res, "REPLAY-PANIC:"); i >= 0 {
			msg := res[i:]
			for _, k := range panicKinds[kind] {
				if strings.Contains(msg, k) {
					if strings.Contains(res, "REPLAY-NOTE: heap-shaped input built as an empty object") && (kind == "rte.nil" || kind == "rte.extern") {
						return "real code panics, but on an input object that was built empty (heap-shaped counterexample; not counted as a reproduction): " + short, false
					}
					return "real code panics on the counterexample: " + short, true
				}
			}
			return "real code panics, but not with the run-time error of this obligation: " + short, false
		}
		return "real code did not panic on the counterexample: " + short, false
	}
	if strings.Contains(res, "REPLAY-CLAUSE-HOLDS: false") {
		return "real code violates the clause on the counterexample: " + short, true
	}
	if strings.Contains(res, "REPLAY-CLAUSE-HOLDS: true") {
		return "real code satisfies the clause on the constructed input (counterexample relies on abstracted state): " + short, false
	}
	if strings.Contains(res, "REPLAY-PANIC:") {
		// a panic is not evidence against a postcondition: the constructed inputs may violate invariants of
		// their types that the model does not show (e.g. a Config without its fields object)
		return "real code panicked on the constructed input before the clause could be evaluated (not counted as a reproduction): " + short, false
	}
	return "replay ran but the clause is not executable in Go: " + short, false
}

// runReplayTest injects the test into the package with -overlay (nothing is written to the repo).
func runReplayTest(repo, relPkgDir, content string) string {
	work, err := os.MkdirTemp("", "ucfgvc-replay")
	if err != nil {
		return "cannot create temp dir: " + err.Error()
	}
	defer os.RemoveAll(work)
	testFile := filepath.Join(work, "zz_verif_replay_test.go")
	os.WriteFile(testFile, []byte(content), 0o644)
	pkgDir := filepath.Join(repo, relPkgDir)
	ov, _ := json.Marshal(map[string]map[string]string{"Replace": {filepath.Join(pkgDir, "zz_verif_replay_test.go"): testFile}})
	ovFile := filepath.Join(work, "overlay.json")
	os.WriteFile(ovFile, ov, 0o644)
	cmd := exec.Command("go", "test", "-tags", "verif", "-overlay", ovFile, "-vet=off", "-count=1", "-timeout", "60s", "-run", "^TestVerifReplay$", "-v", ".")
	cmd.Dir = pkgDir
	cmd.Env = append(goEnv(), "GOCACHE="+filepath.Join(os.TempDir(), "ucfgvc-gocache"))
	out, _ := cmd.CombinedOutput()
	var keep []string
	for _, l := range strings.Split(string(out), "\n") {
		if strings.HasPrefix(l, "REPLAY-") || strings.Contains(l, "cannot") || strings.Contains(l, "undefined") || strings.Contains(l, "panic:") || strings.Contains(l, "zz_verif_replay_test.go") || strings.HasPrefix(l, "FAIL") || strings.Contains(l, "fatal error") {
			keep = append(keep, l)
		}
	}
	return strings.Join(keep, "\n")
}

func cmdReplay(args []string) int {
	if len(args) < 1 {
		usage()
	}
	repo := "/repo"
	if len(args) > 2 && args[1] == "--repo" {
		repo = args[2]
	}
	data, err := os.ReadFile(args[0])
	if err != nil {
		fmt.Println(err)
		return 2
	}
	var rf ReplayFile
	if err := json.Unmarshal(data, &rf); err != nil {
		fmt.Println(err)
		return 2
	}
	fmt.Printf("obligation: %s\nclause:     %s\nat:         %s\nsolver:     %s (%s), model source: %s\n", rf.Obligation, rf.Clause, rf.Position, rf.Status, rf.Solver, rf.ModelSource)
	if rf.TestSource == "" {
		fmt.Printf("no executable counterexample: %s\nsolver output:\n%s\n", rf.Verdict, rf.SolverOutput)
		return 1
	}
	res := runReplayTest(repo, rf.PackageDir, rf.TestSource)
	verdict, reproduced := judgeReplay(rf.Kind, res)
	fmt.Printf("real code output:\n%s\nverdict: %s\n", res, verdict)
	if reproduced {
		return 1
	}
	return 0
}

// ---------------------------------------------------------------- test generation

type goVal struct {
	expr string
	ok   bool
}

// buildReplayTest generates an in-package test calling fn with the inputs of the model. The function's
// requires clauses and the failed ensures clause are compiled to Go where they are executable.
func buildReplayTest(e *Engine, v *fnVC, vals []string, o *Obl) (string, bool) {
	fn := v.fn
	inputs := v.inputs
	if len(vals) < len(inputs) {
		return "", false
	}
	byParam := map[string]map[string]*fieldVal{}
	get := func(p, f string, ty types.Type) *fieldVal {
		if byParam[p] == nil {
			byParam[p] = map[string]*fieldVal{}
		}
		if byParam[p][f] == nil {
			byParam[p][f] = &fieldVal{ty: ty, bytes: map[int]int64{}, ghosts: map[string]string{}}
		}
		return byParam[p][f]
	}
	for i, in := range inputs {
		fv := get(in.param, in.field, in.ty)
		switch in.kind {
		case "val":
			fv.val = vals[i]
		case "slen":
			fv.slen, _ = smtInt(vals[i])
		case "sat":
			n, _ := smtInt(vals[i])
			fv.bytes[in.idx] = n
		default:
			if strings.HasPrefix(in.kind, "ghost:") {
				fv.ghosts[in.kind[6:]] = strings.TrimSpace(vals[i])
			}
		}
	}
	pkg := fn.Pkg.Pkg
	qual := func(p *types.Package) string {
		if p == pkg {
			return ""
		}
		return p.Name()
	}
	imports := map[string]bool{"fmt": true, "math": true, "testing": true}
	var decl []string
	var args []string
	emptyHeap := false
	for _, p := range fn.Params {
		pt := p.Type()
		fields := byParam[p.Name()]
		name := "in_" + p.Name()
		tstr := types.TypeString(pt, qual)
		notePkgs(pt, pkg, imports)
		var init string
		switch u := pt.Underlying().(type) {
		case *types.Pointer:
			if st, ok := u.Elem().Underlying().(*types.Struct); ok && len(fields) > 1 {
				var fs []string
				for i := 0; i < st.NumFields(); i++ {
					f := st.Field(i)
					if fv := fields[f.Name()]; fv != nil {
						if lit, ok := goLiteral(f.Type(), fv.val, fv.slen, fv.bytes); ok {
							if _, isNamed := f.Type().(*types.Named); isNamed {
								lit = fmt.Sprintf("%s(%s)", types.TypeString(f.Type(), qual), lit)
							}
							fs = append(fs, fmt.Sprintf("%s: %s", f.Name(), lit))
						}
					}
				}
				init = fmt.Sprintf("&%s{%s}", types.TypeString(u.Elem(), qual), strings.Join(fs, ", "))
				if hasRefField(st, 0) {
					emptyHeap = true
				}
			} else if fv := fields[""]; fv != nil && strings.TrimSpace(fv.val) == "0" {
				init = "nil"
			} else if _, ok := u.Elem().Underlying().(*types.Struct); ok {
				init = fmt.Sprintf("&%s{}", types.TypeString(u.Elem(), qual))
			} else {
				init = fmt.Sprintf("new(%s)", types.TypeString(u.Elem(), qual))
			}
		case *types.Struct:
			// struct value whose fields are basic: the model value is a constructor application
			init = structLiteral(pt, u, fields[""], qual)
		case *types.Interface:
			// dynamic type from the model's tag; payload built from the scalar fields read back from the model
			if fv := fields[""]; fv != nil {
				parts := splitSexp(strings.TrimSuffix(strings.TrimPrefix(strings.TrimSpace(fv.val), "("), ")"))
				if len(parts) == 3 && parts[0] == "mkI" {
					tag, _ := smtInt(parts[1])
					if tag == 0 {
						init = "nil"
					}
					for ts, tg := range v.P.typeTags {
						if int64(tg) != tag {
							continue
						}
						for fname, f := range fields {
							i := strings.Index(fname, ".")
							if i < 0 || "*"+modPrefix+"."+fname[:i] != ts {
								continue
							}
							if lit, ok := goLiteral(f.ty, f.val, f.slen, f.bytes); ok {
								init = fmt.Sprintf("&%s{%s: %s}", fname[:i], fname[i+1:], lit)
							}
						}
					}
				}
			}
		case *types.Slice:
			// a slice of the model's length with zero elements (element values are not read back)
			if fv := fields[""]; fv != nil {
				parts := splitSexp(strings.TrimSuffix(strings.TrimPrefix(strings.TrimSpace(fv.val), "("), ")"))
				if len(parts) == 5 && parts[0] == "mkS" {
					if n, ok := smtInt(parts[3]); ok && n >= 0 && n <= 64 {
						if b, ok := smtInt(parts[1]); ok && b == 0 {
							init = "nil"
						} else {
							init = fmt.Sprintf("make(%s, %d)", tstr, n)
						}
					}
				}
			}
		default:
			if fv := fields[""]; fv != nil {
				if lit, ok := goLiteral(pt, fv.val, fv.slen, fv.bytes); ok {
					init = fmt.Sprintf("%s(%s)", tstr, lit)
				}
				// witness constructor: the model fixes only an abstract function of the string
				for gname, gval := range fv.ghosts {
					g := e.spec.Ghosts[gname]
					if g == nil || g.Inverse == "" {
						continue
					}
					if g.Guard != "" && fv.ghosts[g.Guard] != "true" {
						continue
					}
					if n, ok := smtInt(gval); ok && pkg.Scope().Lookup(g.Inverse) != nil {
						init = fmt.Sprintf("%s(%s(%d))", tstr, g.Inverse, n)
					}
				}
			}
		}
		if init == "" {
			init = fmt.Sprintf("*new(%s)", tstr)
			emptyHeap = true
		}
		if strings.HasSuffix(init, "{}") && strings.HasPrefix(init, "&") {
			emptyHeap = true
		}
		decl = append(decl, fmt.Sprintf("\tvar %s %s = %s", name, tstr, init))
		args = append(args, name)
	}
	sig := fn.Signature
	if sig.Variadic() && len(args) > 0 {
		args[len(args)-1] += "..."
	}
	call := ""
	if sig.Recv() != nil {
		recvT := types.TypeString(sig.Recv().Type(), qual)
		call = fmt.Sprintf("(%s).%s(%s)", recvT, fn.Name(), strings.Join(args, ", "))
	} else {
		if strings.Contains(fn.Name(), "$") {
			return "", false // closures cannot be called from a test
		}
		call = fmt.Sprintf("%s(%s)", fn.Name(), strings.Join(args, ", "))
	}
	nres := sig.Results().Len()
	var rs []string
	for i := 0; i < nres; i++ {
		rs = append(rs, fmt.Sprintf("r%d", i))
	}
	// Go compilation of requires / the failed clause
	gc := &goCompiler{e: e, v: v, pkg: pkg, qual: qual, imports: imports, vars: map[string]goBind{}}
	for _, p := range fn.Params {
		gc.vars[p.Name()] = goBind{"in_" + p.Name(), p.Type()}
	}
	var pre []string
	if v.con != nil {
		for _, r := range v.con.Requires {
			gc.reset()
			if ex, ok := gc.compileBool(r.E); ok && len(gc.olds) == 0 {
				pre = append(pre, fmt.Sprintf("\tif !(%s) {\n\t\tfmt.Println(\"REPLAY-REQUIRES-VIOLATED: %s\")\n\t\treturn\n\t}", ex, escapeGo(r.Text)))
			}
		}
	}
	var post, olds []string
	if o.Clause != nil && strings.HasPrefix(o.Kind, "post.") {
		gc.reset()
		rnames := v.con.Results
		if len(rnames) == 0 {
			for i := 0; i < nres; i++ {
				rnames = append(rnames, sig.Results().At(i).Name())
			}
		}
		for i := 0; i < nres; i++ {
			ty := sig.Results().At(i).Type()
			b := goBind{fmt.Sprintf("r%d", i), ty}
			if i < len(rnames) && rnames[i] != "" && rnames[i] != "_" {
				gc.vars[rnames[i]] = b
			}
			gc.vars[fmt.Sprintf("result%d", i)] = b
			if nres == 1 {
				gc.vars["result"] = b
			}
			if i == nres-1 {
				if _, ok := gc.vars["err"]; !ok {
					if _, isIface := ty.Underlying().(*types.Interface); isIface {
						gc.vars["err"] = b
					}
				}
			}
			if i == 0 && nres == 2 {
				if _, ok := gc.vars["result"]; !ok {
					gc.vars["result"] = b
				}
			}
		}
		if ex, ok := gc.compileBool(o.Clause.E); ok {
			olds = gc.olds
			post = append(post, fmt.Sprintf("\tfmt.Printf(\"REPLAY-CLAUSE-HOLDS: %%v\\n\", %s)", ex))
		} else {
			post = append(post, fmt.Sprintf("\tfmt.Println(\"REPLAY-CLAUSE-NOT-EXECUTABLE: %s\")", escapeGo(gc.why)))
		}
	}
	var sb strings.Builder
	fmt.Fprintf(&sb, "//go:build verif\n\npackage %s\n\nimport (\n", pkg.Name())
	var imps []string
	for i := range imports {
		imps = append(imps, i)
	}
	sortStrings(imps)
	for _, i := range imps {
		fmt.Fprintf(&sb, "\t%q\n", i)
	}
	sb.WriteString(")\n\nvar _ = math.Pi\n\n")
	fmt.Fprintf(&sb, "// replay of obligation %s\n// clause: %s\n// at %s\nfunc TestVerifReplay(t *testing.T) {\n", o.Name, strings.ReplaceAll(o.Text, "\n", " "), relPos(o.Pos, e.repo))
	sb.WriteString("\tdefer func() {\n\t\tif r := recover(); r != nil {\n\t\t\tfmt.Printf(\"REPLAY-PANIC: %v\\n\", r)\n\t\t}\n\t}()\n")
	sb.WriteString(strings.Join(decl, "\n") + "\n")
	if emptyHeap {
		sb.WriteString("\tfmt.Println(\"REPLAY-NOTE: heap-shaped input built as an empty object\")\n")
	}
	for i, a := range args {
		fmt.Fprintf(&sb, "\tfmt.Printf(\"REPLAY-INPUT: %s = %%#v\\n\", %s)\n", fn.Params[i].Name(), strings.TrimSuffix(a, "..."))
	}
	sb.WriteString(strings.Join(pre, "\n"))
	if len(pre) > 0 {
		sb.WriteString("\n")
	}
	for _, o := range olds {
		sb.WriteString("\t" + o + "\n")
	}
	if nres > 0 {
		fmt.Fprintf(&sb, "\t%s := %s\n", strings.Join(rs, ", "), call)
		fmt.Fprintf(&sb, "\tfmt.Printf(\"REPLAY-RETURNED: %s\\n\", %s)\n", strings.TrimSpace(strings.Repeat("%#v ", nres)), strings.Join(rs, ", "))
	} else {
		fmt.Fprintf(&sb, "\t%s\n\tfmt.Println(\"REPLAY-RETURNED\")\n", call)
	}
	sb.WriteString(strings.Join(post, "\n"))
	sb.WriteString("\n}\n")
	return sb.String(), true
}

func sortStrings(s []string) {
	for i := 1; i < len(s); i++ {
		for j := i; j > 0 && s[j] < s[j-1]; j-- {
			s[j], s[j-1] = s[j-1], s[j]
		}
	}
}

func escapeGo(s string) string {
	s = strings.ReplaceAll(s, "\\", "\\\\")
	s = strings.ReplaceAll(s, "\"", "\\\"")
	s = strings.ReplaceAll(s, "\n", " ")
	return s
}

func notePkgs(t types.Type, self *types.Package, imports map[string]bool) {
	switch u := t.(type) {
	case *types.Named:
		if p := u.Obj().Pkg(); p != nil && p != self {
			imports[p.Path()] = true
		}
	case *types.Pointer:
		notePkgs(u.Elem(), self, imports)
	case *types.Slice:
		notePkgs(u.Elem(), self, imports)
	}
}

type fieldVal struct {
	ty     types.Type
	val    string
	slen   int64
	bytes  map[int]int64
	ghosts map[string]string
}

// structLiteral builds T{f: v, ...} from a model value "(mk_S_pkg_T v1 v2 ...)" when all fields are scalars.
func structLiteral(t types.Type, st *types.Struct, fv *fieldVal, qual types.Qualifier) string {
	if fv == nil {
		return ""
	}
	val := strings.TrimSpace(fv.val)
	if !strings.HasPrefix(val, "(mk_") {
		return ""
	}
	parts := splitSexp(strings.TrimSuffix(strings.TrimPrefix(val, "("), ")"))
	if len(parts) != st.NumFields()+1 {
		return ""
	}
	var fs []string
	for i := 0; i < st.NumFields(); i++ {
		if isString(st.Field(i).Type()) {
			return ""
		}
		lit, ok := goLiteral(st.Field(i).Type(), parts[i+1], 0, nil)
		if !ok {
			return ""
		}
		fs = append(fs, fmt.Sprintf("%s: %s", st.Field(i).Name(), lit))
	}
	return fmt.Sprintf("%s{%s}", types.TypeString(t, qual), strings.Join(fs, ", "))
}

func splitSexp(s string) []string {
	var out []string
	d, start := 0, -1
	for i := 0; i < len(s); i++ {
		c := s[i]
		switch {
		case c == '(':
			if d == 0 && start < 0 {
				start = i
			}
			d++
		case c == ')':
			d--
			if d == 0 {
				out = append(out, s[start:i+1])
				start = -1
			}
		case c == ' ' || c == '\t' || c == '\n':
			if d == 0 && start >= 0 {
				out = append(out, s[start:i])
				start = -1
			}
		default:
			if start < 0 {
				start = i
			}
		}
	}
	if start >= 0 {
		out = append(out, s[start:])
	}
	return out
}

var _ = ssa.NaiveForm

// hasRefField: the struct (transitively, by value) contains a field the replay cannot fill from a model.
func hasRefField(st *types.Struct, depth int) bool {
	for i := 0; i < st.NumFields() && depth < 4; i++ {
		switch u := st.Field(i).Type().Underlying().(type) {
		case *types.Pointer, *types.Interface, *types.Map, *types.Slice, *types.Chan, *types.Signature:
			return true
		case *types.Struct:
			if hasRefField(u, depth+1) {
				return true
			}
		}
	}
	return false
}

package main

import (
	"encoding/json"
	"flag"
	"fmt"
	"go/types"
	"os"
	"path/filepath"
	"sort"
	"strconv"
	"strings"
	"time"

	"golang.org/x/tools/go/ssa"
)

// ---------------------------------------------------------------- generation

func (e *Engine) newVC(k string, mode string) (*fnVC, error) {
	fn := e.fns[k]
	if fn == nil {
		return nil, fmt.Errorf("contract for unknown function %s", k)
	}
	con := e.spec.Contracts[k]
	if mode != "" && mode != con.Mode {
		c2 := *con
		c2.Mode = mode
		con = &c2
	}
	P := newPrelude(con.Mode == "bv")
	if pkg := e.typesPkg(modPrefix); pkg != nil {
		if obj := pkg.Scope().Lookup("Error"); obj != nil {
			P.errIface, _ = obj.Type().Underlying().(*types.Interface)
		}
	}
	uses := false
	cls := append(append([]Clause{}, con.Requires...), con.Ensures...)
	for _, ac := range con.AtCall {
		cls = append(cls, ac...)
	}
	for _, cl := range cls {
		if strings.Contains(cl.Text, "rvver(") {
			uses = true
		}
	}
	v := &fnVC{usesRV: uses, e: e, fn: fn, con: con, P: P, vals: map[ssa.Value]T{}, reach: map[*ssa.BasicBlock]T{}, memOut: map[*ssa.BasicBlock]map[string]T{}, cur: map[string]T{}, memSrt: map[string]string{}, oblCnt: map[string]int{}, tuples: map[ssa.Value][]T{}, usedContracts: map[string]bool{}, grounded: map[string]bool{}, closures: map[ssa.Value]*ssa.MakeClosure{}, rangeOf: map[*ssa.Range]ssa.Value{}}
	return v, nil
}

func (e *Engine) gen(k string, mode string, verbose bool) (v *fnVC, err error) {
	v, err = e.newVC(k, mode)
	if err != nil {
		return nil, err
	}
	defer func() {
		if r := recover(); r != nil {
			if verbose {
				panic(r)
			}
			err = fmt.Errorf("generator error in %s: %v", k, r)
		}
	}()
	v.run()
	return v, nil
}

// oblProps: which properties an obligation is decided under.
func oblProps(o *Obl, con *Contract) []string {
	if strings.HasPrefix(o.Kind, "post.") && len(o.Props) > 0 {
		return o.Props
	}
	if strings.HasPrefix(o.Kind, "post.") && len(con.TaggedOnly) > 0 {
		var ps []string
		for _, p := range con.Props {
			if !hasStr(con.TaggedOnly, p) {
				ps = append(ps, p)
			}
		}
		return ps
	}
	if strings.HasPrefix(o.Kind, "rte.") || strings.HasPrefix(o.Kind, "dec.") {
		if con.hasProp("C07") {
			return []string{"C07"}
		}
	}
	return con.Props
}

func hasStr(l []string, s string) bool {
	for _, x := range l {
		if x == s {
			return true
		}
	}
	return false
}

// selectFns returns the keys of the functions under contract for a property ("" = all), sorted.
func (e *Engine) selectFns(prop, filter string) []string {
	var keys []string
	for k, c := range e.spec.Contracts {
		if c.Extern || c.Trusted || strings.HasPrefix(c.Key, "iface:") {
			continue
		}
		if prop != "" && !c.hasProp(prop) {
			continue
		}
		if filter != "" && !strings.Contains(k, filter) {
			continue
		}
		keys = append(keys, k)
	}
	sort.Strings(keys)
	return keys
}

type genResult struct {
	jobs     []*job
	fns      []string
	vcs      map[string]*fnVC
	toolErrs []string
	missing  []string // contracts whose function does not exist in the tree
	notes    map[string][]string
	trusted  map[string]bool
}

// generate builds all obligations (and vacuity covers) of the selected functions into dir.
func (e *Engine) generate(keys []string, prop string, kinds string, dir string, verbose bool) *genResult {
	g := &genResult{vcs: map[string]*fnVC{}, notes: map[string][]string{}, trusted: map[string]bool{}}
	os.MkdirAll(dir, 0o755)
	for _, k := range keys {
		con := e.spec.Contracts[k]
		if e.fns[k] == nil {
			// a contract whose function is not in the tree (removed or renamed, e.g. a deferred closure that was
			// deleted): nothing can be generated for it; the functions that used it are still checked against their
			// own contracts, which is where a broken property shows. Reported, never silently dropped.
			g.missing = append(g.missing, con.Key)
			continue
		}
		v, err := e.gen(k, "", verbose)
		if err != nil {
			g.toolErrs = append(g.toolErrs, err.Error())
			continue
		}
		g.fns = append(g.fns, con.Key)
		g.vcs[k] = v
		// clauses proved in the other integer model: a second generation of the same function in that
		// mode contributes exactly those post obligations
		obls := v.obls
		otherMode := ""
		for _, en := range con.Ensures {
			if en.Mode != "" && en.Mode != con.Mode {
				otherMode = en.Mode
			}
		}
		if otherMode != "" {
			v2, err := e.gen(k, otherMode, verbose)
			if err != nil {
				g.toolErrs = append(g.toolErrs, err.Error())
				continue
			}
			obls = nil
			for _, o := range v.obls {
				if o.Clause != nil && o.Clause.Mode == otherMode {
					continue
				}
				o.vc = v
				obls = append(obls, o)
			}
			for _, o := range v2.obls {
				if o.Clause != nil && o.Clause.Mode == otherMode {
					o.vc = v2
					obls = append(obls, o)
				}
			}
		}
		if len(v.unsupported) > 0 {
			g.notes[con.Key] = append(g.notes[con.Key], "havoc'd unsupported constructs: "+strings.Join(uniq(v.unsupported), "; "))
		}
		g.notes[con.Key] = append(g.notes[con.Key], uniq(v.notes)...)
		for u := range v.usedContracts {
			if c := e.spec.Contracts[u]; c != nil && (c.Trusted || c.Extern || strings.HasPrefix(c.Key, "iface:")) {
				g.trusted[u] = true
			}
		}
		// every ensures clause relevant to the property must have produced at least one obligation
		seenPost := map[string]bool{}
		coverDone := map[string]bool{}
		for _, o := range obls {
			v := v
			if o.vc != nil {
				v = o.vc
			}
			if prop != "" && !hasStr(oblProps(o, con), prop) {
				continue
			}
			if kinds != "" {
				ok := false
				for _, kd := range strings.Split(kinds, ",") {
					if strings.HasPrefix(o.Kind, kd) {
						ok = true
					}
				}
				if !ok {
					continue
				}
			}
			if o.Reach == "" {
				continue
			}
			if o.Clause != nil && o.Clause.Unproved {
				seenPost[o.Kind] = true
				continue
			}
			if strings.HasPrefix(o.Kind, "post.") {
				seenPost[o.Kind] = true
			}
			smt := v.emit(o, "")
			file := filepath.Join(dir, fmt.Sprintf("%s_%04d.smt2", sanitize(con.Key), len(g.jobs)))
			writeFile(file, smt)
			g.jobs = append(g.jobs, &job{o: o, v: v, file: file, size: len(smt)})
			if strings.HasPrefix(o.Kind, "post.") {
				ck := fmt.Sprint(o.blk.Index, "|", o.Reach)
				if !coverDone[ck] {
					// vacuity guard: the quantifier-free fragment of the path facts must be satisfiable
					coverDone[ck] = true
					co := &Obl{Name: fmt.Sprintf("%s#cover.return[block %d]#%d", con.Key, o.blk.Index, len(coverDone)), Kind: "cover", Goal: "false", Reach: o.Reach, blk: o.blk, idx: o.idx, Text: "return path reachable under the assumed facts", Pos: o.Pos}
					cs := qfFragment(v.emit(co, ""))
					cfile := filepath.Join(dir, fmt.Sprintf("%s_%04d_cover.smt2", sanitize(con.Key), len(g.jobs)))
					writeFile(cfile, cs)
					g.jobs = append(g.jobs, &job{o: co, v: v, file: cfile, size: len(cs)})
				}
			}
		}
		for i, en := range con.Ensures {
			if en.Unproved {
				g.notes[con.Key] = append(g.notes[con.Key], "UNPROVED clause (written, not discharged, assumed by callers): ensures ["+en.Name+"] "+en.Text)
			}
			if !en.forProp(prop) || (len(en.Props) == 0 && hasStr(con.TaggedOnly, prop)) {
				continue
			}
			name := en.Name
			if name == "" {
				name = fmt.Sprintf("%d", i+1)
			}
			if !seenPost["post."+name] && kinds == "" && len(v.fn.Blocks) > 0 {
				g.toolErrs = append(g.toolErrs, fmt.Sprintf("%s: ensures [%s] produced no obligation (no reachable return?)", con.Key, name))
			}
		}
	}
	return g
}

// classifyDeadReturn decides why the facts on a return path are unsatisfiable: "dead-branch" when a
// reachable predecessor's branch condition excludes the path (semantically dead code, e.g. a defensive
// check that a callee's contract makes impossible), "inside" when the contradiction arises among the
// facts assumed within a block (a contradictory contract or a generator error: proofs would be vacuous).
func classifyDeadReturn(j *job, cfg solveCfg) string {
	v := j.v
	n := 0
	var satAtR func(b *ssa.BasicBlock, idx int, r T) bool
	satAt := func(b *ssa.BasicBlock, idx int) bool { return satAtR(b, idx, v.reach[b]) }
	satAtR = func(b *ssa.BasicBlock, idx int, r T) bool {
		if r == "" {
			return false
		}
		o := &Obl{Name: "cover", Kind: "cover", Goal: "false", Reach: r, blk: b, idx: idx}
		n++
		file := fmt.Sprintf("%s_dead%d.smt2", strings.TrimSuffix(j.file, ".smt2"), n)
		writeFile(file, qfFragment(v.emit(o, "")))
		a, _ := race(file, []string{"z3-new", "z3"}, cfg.t1+6, 0, false)
		return a.status != "unsat"
	}
	memo := map[*ssa.BasicBlock]string{}
	var classify func(b *ssa.BasicBlock) string
	classify = func(b *ssa.BasicBlock) string {
		if r, ok := memo[b]; ok {
			return r
		}
		memo[b] = "dead-branch"
		if satAt(b, v.entrySeq[b]+1) {
			memo[b] = "inside"
			return "inside"
		}
		for _, p := range b.Preds {
			if v.isBack[[2]*ssa.BasicBlock{p, b}] || v.reach[p] == "" {
				continue
			}
			if satAt(p, 1<<30) {
				continue // consistent state at the end of p: only the edge condition excludes b
			}
			if classify(p) == "inside" {
				memo[b] = "inside"
				return "inside"
			}
		}
		return memo[b]
	}
	// post obligations at a merge block are proved per incoming edge: the cover then belongs to one edge
	b := j.o.blk
	if j.o.Reach != v.reach[b] {
		for _, p := range b.Preds {
			if v.isBack[[2]*ssa.BasicBlock{p, b}] || v.reach[p] == "" {
				continue
			}
			if and(v.reach[b], v.edgeCond(p, b)) == j.o.Reach {
				if satAtR(b, v.entrySeq[b]+1, j.o.Reach) {
					return "inside" // the edge is feasible on entry to b: the contradiction arises among b's own facts
				}
				if satAt(p, 1<<30) {
					return "dead-branch"
				}
				return classify(p)
			}
		}
	}
	return classify(b)
}

// ---------------------------------------------------------------- known findings

type Finding struct {
	Property   string `json:"property"`
	Obligation string `json:"obligation"` // prefix of the obligation name: fn#kind
	Region     string `json:"region"`     // contract-language predicate over the function's inputs characterising the failing inputs
	What       string `json:"what"`
	Witness    string `json:"witness,omitempty"`
}

type FindingsFile struct {
	Findings []Finding `json:"findings"`
	Fixed    []string  `json:"fixed"`
}

func loadFindings(verifDir string) (*FindingsFile, error) {
	ff := &FindingsFile{}
	data, err := os.ReadFile(filepath.Join(verifDir, "known_findings.json"))
	if err != nil {
		if os.IsNotExist(err) {
			return ff, nil
		}
		return nil, err
	}
	if err := json.Unmarshal(data, ff); err != nil {
		return nil, fmt.Errorf("known_findings.json: %v", err)
	}
	return ff, nil
}

func (ff *FindingsFile) match(prop, oblName string) *Finding {
	for i := range ff.Findings {
		f := &ff.Findings[i]
		if f.Property == prop && strings.HasPrefix(oblName, f.Obligation) {
			rest := oblName[len(f.Obligation):]
			if rest == "" || rest[0] == '#' || rest[0] == '[' {
				return f
			}
		}
	}
	return nil
}

// ---------------------------------------------------------------- check

type Evidence struct {
	PropertyID  string                 `json:"property_id"`
	Tier        string                 `json:"tier"`
	Seed        int                    `json:"seed"`
	Level       string                 `json:"level"`
	Coverage    map[string]interface{} `json:"coverage"`
	Assumptions []string               `json:"assumptions"`
	WallS       float64                `json:"wall_s"`
	Violations  int                    `json:"violations"`
}

func cmdCheck(args []string) int {
	if len(args) < 1 {
		usage()
	}
	prop := args[0]
	fs := flag.NewFlagSet("check", flag.ExitOnError)
	tier := fs.String("tier", "", "quick|thorough")
	repo := fs.String("repo", "/repo", "repository")
	verif := fs.String("verif", "/verif", "verif dir")
	noEvidence := fs.Bool("no-evidence", false, "do not write the evidence file (self-test runs on scratch copies)")
	verbose := fs.Bool("v", false, "verbose")
	fs.Parse(args[1:])
	if *tier == "" {
		*tier = os.Getenv("VERIF_TIER")
	}
	if *tier != "thorough" {
		*tier = "quick"
	}
	seed, _ := strconv.Atoi(os.Getenv("VERIF_SEED"))
	t0 := time.Now()

	fail := func(msg string) int {
		fmt.Printf("TOOL-ERROR property=%s %s\n", prop, msg)
		return 2
	}
	e, err := load(*repo)
	if err != nil {
		return fail("cannot load " + *repo + ": " + err.Error())
	}
	if err := e.loadContracts(*verif, ""); err != nil {
		return fail("contracts: " + err.Error())
	}
	ff, err := loadFindings(*verif)
	if err != nil {
		return fail(err.Error())
	}
	keys := e.selectFns(prop, "")
	if len(keys) == 0 {
		return fail("no function is under contract for this property")
	}
	work := filepath.Join(*verif, "work", prop+"-"+*tier)
	if *noEvidence {
		work, _ = os.MkdirTemp("", "ucfgvc-"+prop)
		defer os.RemoveAll(work)
	} else {
		os.RemoveAll(work)
	}
	g := e.generate(keys, prop, "", work, *verbose)
	if len(g.toolErrs) > 0 {
		for _, m := range g.toolErrs {
			fmt.Printf("TOOL-ERROR property=%s %s\n", prop, m)
		}
		return 2
	}
	for _, m := range g.missing {
		fmt.Printf("WARNING property=%s contract without function (skipped): %s\n", prop, m)
	}
	tLoad := time.Since(t0).Seconds()
	cfg := solveCfg{t1: 4, t2: 20, seed: seed, par: 14}
	if *tier == "thorough" {
		cfg = solveCfg{t1: 10, t2: 60, seed: seed, thorough: true, par: 14}
	}
	solverTime := solveAll(g.jobs, cfg)

	// decide
	nObl, nDis, nCover := 0, 0, 0
	byBackend := map[string]int{}
	confirmed2 := 0
	var violations []string
	var known []string
	var vacuous, deadPaths []string
	var slow []string
	var solverErrs []string
	var samples []map[string]interface{}
	replayDir := filepath.Join(*verif, "replays", prop)
	for _, j := range g.jobs {
		if j.o.Kind == "cover" {
			nCover++
			switch j.status {
			case "unsat":
				if classifyDeadReturn(j, cfg) == "inside" {
					vacuous = append(vacuous, j.o.Name)
				} else {
					deadPaths = append(deadPaths, j.o.Name+" "+relPos(j.o.Pos, *repo))
				}
			}
			continue
		}
		if os.Getenv("UCFGVC_PROBE_PRE") != "" {
			if strings.HasPrefix(j.o.Kind, "pre@") {
				fmt.Printf("PROBE %s %s %s %s :: %s\n", j.status, j.o.Fn, j.o.Kind, relPos(j.o.Pos, *repo), j.o.Text)
			}
			if j.status != "unsat" {
				continue
			}
		}
		nObl++
		if j.secs > 2 && j.status == "unsat" {
			slow = append(slow, fmt.Sprintf("%s %.1fs", j.o.Name, j.secs))
		}
		if j.status == "unsat" {
			nDis++
			byBackend[j.solver]++
			if j.confirm >= 2 {
				confirmed2++
			}
			if len(samples) < 6 && (nObl%17 == 1 || len(samples) == 0) {
				samples = append(samples, map[string]interface{}{"obligation": j.o.Name, "clause": j.o.Text, "at": relPos(j.o.Pos, *repo), "smt_bytes": j.size, "result": "unsat", "backend": j.solver, "secs": round3(j.secs)})
			}
			continue
		}
		if j.status == "error" {
			// every back end rejected the query text: a defect of the generator, never a verdict about the code
			solverErrs = append(solverErrs, j.o.Name+": "+firstLines(j.out, 1))
			continue
		}
		// not discharged
		if f := ff.match(prop, j.o.Name); f != nil {
			// known finding: the obligation restricted to the complement of the failing region must discharge
			ok, why := checkRestricted(j, f, cfg)
			if ok {
				known = append(known, fmt.Sprintf("KNOWN-FINDING: property=%s %s %s", prop, f.Obligation, f.What))
				nDis++
				byBackend["restricted"]++
				continue
			}
			fmt.Printf("note: %s fails outside the listed region of the known finding (%s)\n", j.o.Name, why)
		}
		rp := replayViolation(e, j, prop, replayDir, cfg)
		line := fmt.Sprintf("VIOLATION property=%s replay=%s", prop, rp.Path)
		if !rp.Reproduced {
			line += " no-failing-input-found"
		}
		fmt.Printf("failed obligation: %s [%s by %s] %s\n    clause: %s\n    replay: %s\n", j.o.Name, j.status, j.solver, relPos(j.o.Pos, *repo), j.o.Text, rp.Verdict)
		violations = append(violations, line)
		samples = append(samples, map[string]interface{}{"obligation": j.o.Name, "clause": j.o.Text, "at": relPos(j.o.Pos, *repo), "smt_bytes": j.size, "result": j.status, "backend": j.solver, "replay": rp.Verdict})
	}
	for _, k := range uniq(known) {
		fmt.Println(k)
	}
	for _, l := range violations {
		fmt.Println(l)
	}
	if len(solverErrs) > 0 && len(violations) == 0 {
		for _, n := range solverErrs {
			fmt.Printf("TOOL-ERROR property=%s solver rejected the query: %s\n", prop, n)
		}
		return 2
	}
	if len(vacuous) > 0 && len(violations) == 0 {
		for _, n := range vacuous {
			fmt.Printf("TOOL-ERROR property=%s VACUOUS: the assumed facts on this return path are contradictory: %s\n", prop, n)
		}
		return 2
	}
	wall := time.Since(t0).Seconds()

	// evidence
	var trusted []string
	for t := range g.trusted {
		c := e.spec.Contracts[t]
		kind := "trusted contract (in-repo function, body not verified)"
		if c.Extern {
			kind = "assumed contract of external function"
		} else if strings.HasPrefix(c.Key, "iface:") {
			kind = "interface method contract (implementations checked by refine obligations where listed)"
		}
		trusted = append(trusted, strings.Replace(t, modPrefix, "ucfg", 1)+": "+kind)
	}
	sort.Strings(trusted)
	trusted = append(trusted, "Go type checker + golang.org/x/tools/go/ssa v0.29.0 (SSA of /repo's working tree, rebuilt on this run)", "SMT solvers z3 5.1.0 (z3-new), z3 4.8.12, cvc5 1.0", "ucfgvc SSA->SMT translation (DESIGN.md section 3/4), GOARCH=amd64 (int = 64 bit)")
	var assumptions []string
	seenA := map[string]bool{}
	for _, m := range g.missing {
		assumptions = append(assumptions, m+": CONTRACT WITHOUT FUNCTION in this tree - no obligation generated for it")
	}
	for _, fn := range g.fns {
		for _, n := range g.notes[fn] {
			a := fn + ": " + n
			if !seenA[a] {
				seenA[a] = true
				assumptions = append(assumptions, a)
			}
		}
	}
	sweepFns := 0
	for _, k := range keys {
		con := e.spec.Contracts[k]
		for _, r := range con.Requires {
			assumptions = append(assumptions, con.Key+": requires "+r.Text+" (checked at call sites under contract; assumed for callers outside)")
		}
		if con.Sweep {
			sweepFns++
			continue
		}
		if len(con.NoRteKinds) > 0 {
			assumptions = append(assumptions, con.Key+": not claimed for this function: "+strings.Join(con.NoRteKinds, ", "))
		}
		if con.NoRte {
			assumptions = append(assumptions, con.Key+": absence of run-time errors is NOT claimed for this function (norte): only its contract clauses are proved, assuming execution does not panic")
		} else if con.NoNil {
			assumptions = append(assumptions, con.Key+": nil dereferences are not claimed for this function (nonil)")
		}
	}
	if sweepFns > 0 {
		assumptions = append(assumptions, fmt.Sprintf("%d functions are in the zero-annotation sweep (sweep_verif.go): only their own index/slice/string-index/type-assertion/division/make/nil-map/panic obligations are proved; nil dereferences are not claimed for them and the preconditions of the functions they call are assumed at those call sites", sweepFns))
	}
	assumptions = append(assumptions, propAssumptions[prop]...)
	sort.Strings(g.fns)
	ev := Evidence{PropertyID: prop, Tier: *tier, Seed: seed, Level: "proof", WallS: round3(wall), Violations: len(violations), Assumptions: assumptions,
		Coverage: map[string]interface{}{
			"obligations":              nObl,
			"discharged":               nDis,
			"checker_cmd":              fmt.Sprintf("/verif/bin/ucfgvc check %s --tier %s  (VCs from go/ssa of %s, discharged by z3-new/z3/cvc5)", prop, *tier, *repo),
			"trusted_base":             trusted,
			"functions_under_contract": g.fns,
			"by_backend":               byBackend,
			"confirmed_by_two_backends": confirmed2,
			"vacuity_covers":           nCover,
			"solver_time_s":            round3(solverTime),
			"load_and_vcgen_s":         round3(tLoad),
			"known_findings":           uniq(known),
			"dead_return_paths":        deadPaths,
			"slow_obligations":         slow,
			"samples":                  samples,
			"integer_model":            "mode int: mathematical integers with explicit two's-complement wrap on every + - * and conversion; mode bv: 64-bit vectors and IEEE-754 floats (per function, see contract files)",
		}}
	if !*noEvidence {
		os.MkdirAll(filepath.Join(*verif, "evidence"), 0o755)
		data, _ := json.MarshalIndent(ev, "", " ")
		writeFile(filepath.Join(*verif, "evidence", prop+".json"), string(data)+"\n")
	}
	fmt.Printf("property=%s tier=%s functions=%d obligations=%d discharged=%d covers=%d known-findings=%d violations=%d solver=%.1fs wall=%.1fs\n", prop, *tier, len(g.fns), nObl, nDis, nCover, len(uniq(known)), len(violations), solverTime, wall)
	if len(violations) > 0 {
		return 1
	}
	return 0
}

func round3(f float64) float64 { return float64(int(f*1000+0.5)) / 1000 }

func relPos(pos, repo string) string {
	return strings.TrimPrefix(pos, repo+"/")
}

// checkRestricted re-runs a failed obligation with the known-finding region excluded.
func checkRestricted(j *job, f *Finding, cfg solveCfg) (bool, string) {
	if f.Region == "" {
		return false, "finding has no region"
	}
	ex, err := parseExpr(f.Region)
	if err != nil {
		return false, "bad region: " + err.Error()
	}
	var term T
	func() {
		defer func() {
			if r := recover(); r != nil {
				err = fmt.Errorf("%v", r)
			}
		}()
		env := j.v.entryEnv()
		env.useEntryOld, env.inOld, env.old = true, true, map[string]T{}
		saved := j.v.facts
		term, _ = j.v.tr(ex, env)
		// facts generated while translating the region (ground axioms) are kept: they are definitional
		_ = saved
	}()
	if err != nil {
		return false, "region does not translate: " + err.Error()
	}
	// translating may have appended definitional facts after the obligation index; re-emit with them visible
	o2 := *j.o
	o2.idx = 1 << 30
	smt := j.v.emit(&o2, not(term))
	file := strings.TrimSuffix(j.file, ".smt2") + "_restricted.smt2"
	writeFile(file, smt)
	a, _ := race(file, []string{"z3-new", "z3", "cvc5"}, cfg.t2, 0, false)
	if a.status == "unsat" {
		return true, ""
	}
	return false, a.status
}

// ---------------------------------------------------------------- dev runner

func cmdRun(args []string) int {
	fs := flag.NewFlagSet("run", flag.ExitOnError)
	repo := fs.String("repo", "/repo", "repository")
	verif := fs.String("verif", "/verif", "verif dir")
	spec := fs.String("spec", "", "extra contract file")
	keep := fs.String("keep", "", "directory to keep smt files")
	only := fs.String("fn", "", "only functions whose key contains this")
	prop := fs.String("prop", "", "only this property")
	kinds := fs.String("kinds", "", "comma list of obligation kind prefixes")
	timeout := fs.Int("timeout", 10, "seconds")
	verbose := fs.Bool("v", false, "verbose")
	doReplay := fs.Bool("replay", false, "replay failed obligations")
	fs.Parse(args)
	t0 := time.Now()
	e, err := load(*repo)
	if err != nil {
		fmt.Println("load:", err)
		return 2
	}
	if err := e.loadContracts(*verif, *spec); err != nil {
		fmt.Println("contracts:", err)
		return 2
	}
	fmt.Printf("loaded in %.1fs; %d contracts\n", time.Since(t0).Seconds(), len(e.spec.Contracts))
	dir := *keep
	if dir == "" {
		dir, _ = os.MkdirTemp("", "ucfgvc")
		defer os.RemoveAll(dir)
	}
	keys := e.selectFns(*prop, *only)
	g := e.generate(keys, *prop, *kinds, dir, *verbose)
	for _, m := range g.toolErrs {
		fmt.Println("TOOL-ERROR:", m)
	}
	for _, fn := range g.fns {
		for _, n := range g.notes[fn] {
			if strings.HasPrefix(n, "havoc") {
				fmt.Printf("  [%s] %s\n", fn, n)
			}
		}
	}
	cfg := solveCfg{t1: *timeout, t2: *timeout, par: 14}
	total := solveAll(g.jobs, cfg)
	counts := map[string]int{}
	for _, j := range g.jobs {
		st := j.status
		if j.o.Kind == "cover" {
			switch st {
			case "sat":
				st = "unsat"
			case "unsat":
				st = "VACUOUS"
				if classifyDeadReturn(j, cfg) != "inside" {
					st = "unsat"
					fmt.Printf("dead return path (excluded by a branch condition): %s %s\n", j.o.Name, j.o.Pos)
				}
			default:
				st = "cover-" + st
			}
		}
		counts[st]++
		if st != "unsat" || *verbose {
			fmt.Printf("%-8s %-7s %5.2fs %s\n", st, j.solver, j.secs, j.o.Name)
			if st == "sat" {
				lines := strings.Split(strings.TrimSpace(j.out), "\n")
				if len(lines) > 1 {
					ms := strings.Join(lines[1:], " ")
					if len(ms) > 300 {
						ms = ms[:300] + " ..."
					}
					fmt.Printf("         model: %s\n", ms)
				}
			}
			if st == "error" {
				fmt.Printf("         %s\n", firstLines(j.out, 3))
			}
			if *doReplay && j.o.Kind != "cover" && st != "unsat" {
				rp := replayViolation(e, j, "dev", filepath.Join(dir, "replay"), cfg)
				fmt.Printf("         replay: %s\n", rp.Verdict)
			}
		}
	}
	fmt.Printf("functions=%d obligations=%d %v solver-time=%.1fs wall=%.1fs\n", len(g.fns), len(g.jobs), counts, total, time.Since(t0).Seconds())
	return 0
}

// propAssumptions: the stated (not machine-checked) parts of each property's argument; see DESIGN.md section 6.
var propAssumptions = map[string][]string{}

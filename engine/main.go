package main

import (
	"flag"
	"fmt"
	"go/token"
	"go/types"
	"os"
	"path/filepath"
	"sort"
	"strings"

	"golang.org/x/tools/go/packages"
	"golang.org/x/tools/go/ssa"
	"golang.org/x/tools/go/ssa/ssautil"
)

type Engine struct {
	repo   string
	prog   *ssa.Program
	pkgs   map[string]*ssa.Package
	tpkgs  map[string]*types.Package
	ppkgs  []*packages.Package
	spec   *Spec
	fns    map[string]*ssa.Function // pkg::key
	srcTxt map[string][]string
	constGlobals map[string]bool // SMT names of package-level variables written only by package initialisation
	interior map[string]bool // module struct types that occur by value inside other structs, arrays or slices
}

// computeInterior finds the struct types of the module that are embedded by value somewhere (as a field, an
// array or slice element, a map value): a pointer to any other module struct is always the base of its object.
func (e *Engine) computeInterior() {
	e.interior = map[string]bool{}
	var mark func(t types.Type)
	mark = func(t types.Type) {
		switch u := t.(type) {
		case *types.Named:
			if _, ok := u.Underlying().(*types.Struct); ok {
				e.interior[types.TypeString(u, nil)] = true
			}
		case *types.Array:
			mark(u.Elem())
		}
	}
	for _, p := range e.tpkgs {
		if !strings.HasPrefix(p.Path(), modPrefix) {
			continue
		}
		for _, name := range p.Scope().Names() {
			tn, ok := p.Scope().Lookup(name).(*types.TypeName)
			if !ok {
				continue
			}
			switch u := tn.Type().Underlying().(type) {
			case *types.Struct:
				for i := 0; i < u.NumFields(); i++ {
					mark(u.Field(i).Type())
				}
			case *types.Slice:
				mark(u.Elem())
			case *types.Map:
				mark(u.Elem())
			}
		}
	}
	// element types of slices / maps used anywhere in signatures or bodies are found lazily: any []T / map[..]T with T a
	// module struct marks T (conservative scan over all SSA value types)
	for _, f := range e.fns {
		for _, b := range f.Blocks {
			for _, in := range b.Instrs {
				if val, ok := in.(ssa.Value); ok {
					switch u := val.Type().Underlying().(type) {
					case *types.Slice:
						mark(u.Elem())
					case *types.Map:
						mark(u.Elem())
					case *types.Pointer:
						if a, ok := u.Elem().Underlying().(*types.Array); ok {
							mark(a.Elem())
						}
					}
				}
			}
		}
	}
}

func (e *Engine) typesPkg(path string) *types.Package {
	if p, ok := e.tpkgs[path]; ok {
		return p
	}
	return nil
}

func goEnv() []string {
	return append(os.Environ(), "GOFLAGS=-mod=mod", "GOPROXY=off", "GOSUMDB=off", "GOTOOLCHAIN=local")
}

// load type-checks the repository's current working tree with the verif tag and builds SSA.
func load(dir string) (*Engine, error) {
	cfg := &packages.Config{Mode: packages.LoadAllSyntax, Dir: dir, BuildFlags: []string{"-tags=verif"}, Env: goEnv()}
	pkgs, err := packages.Load(cfg, "./...")
	if err != nil {
		return nil, err
	}
	if packages.PrintErrors(pkgs) > 0 {
		return nil, fmt.Errorf("load errors")
	}
	prog, _ := ssautil.AllPackages(pkgs, ssa.GlobalDebug)
	prog.Build()
	e := &Engine{repo: dir, prog: prog, pkgs: map[string]*ssa.Package{}, tpkgs: map[string]*types.Package{}, fns: map[string]*ssa.Function{}, ppkgs: pkgs, srcTxt: map[string][]string{}}
	for _, p := range prog.AllPackages() {
		e.pkgs[p.Pkg.Path()] = p
		e.tpkgs[p.Pkg.Path()] = p.Pkg
	}
	for f := range ssautil.AllFunctions(prog) {
		if f.Pkg == nil || f.Synthetic != "" {
			continue
		}
		e.fns[f.Pkg.Pkg.Path()+"::"+f.RelString(f.Pkg.Pkg)] = f
	}
	e.computeInterior()
	e.scanConstGlobals(pkgs)
	return e, nil
}

// scanConstGlobals finds the package-level variables of the repository that are written only by package
// initialisation: no instruction outside an init function stores to them or takes their address for anything
// but a load. Such a variable holds the same value in every state a function under contract can observe.
func (e *Engine) scanConstGlobals(roots []*packages.Package) {
	e.constGlobals = map[string]bool{}
	inRepo := map[string]bool{}
	for _, p := range roots {
		inRepo[p.PkgPath] = true
	}
	written := map[*ssa.Global]bool{}
	for f := range ssautil.AllFunctions(e.prog) {
		if f.Pkg == nil {
			continue
		}
		isInit := f.Name() == "init" || strings.HasPrefix(f.Name(), "init#")
		if isInit && f.Parent() == nil {
			continue
		}
		for _, b := range f.Blocks {
			for _, in := range b.Instrs {
				if u, ok := in.(*ssa.UnOp); ok && u.Op == token.MUL {
					continue
				}
				if _, ok := in.(*ssa.DebugRef); ok {
					continue
				}
				for _, op := range in.Operands(nil) {
					if op == nil || *op == nil {
						continue
					}
					if g, ok := (*op).(*ssa.Global); ok {
						written[g] = true
					}
				}
			}
		}
	}
	for path, p := range e.pkgs {
		if !inRepo[path] {
			continue
		}
		for _, m := range p.Members {
			if g, ok := m.(*ssa.Global); ok && !written[g] {
				e.constGlobals["g_"+sanitize(g.Pkg.Pkg.Name()+"_"+g.Name())] = true
			}
		}
	}
}

// loadContracts gathers the //@ contracts: trusted external contracts from <verif>/contracts/*.spec
// and the contracts kept inside the repository in *_verif.go files (build tag verif).
func (e *Engine) loadContracts(verifDir string, extra string) error {
	sp := newSpec()
	files, _ := filepath.Glob(filepath.Join(verifDir, "contracts", "*.spec"))
	sort.Strings(files)
	for _, f := range files {
		if err := sp.loadFile(f, ""); err != nil {
			return err
		}
	}
	for _, p := range e.ppkgs {
		if !strings.HasPrefix(p.PkgPath, modPrefix) {
			continue
		}
		fs := append([]string{}, p.GoFiles...)
		sort.Strings(fs)
		for _, f := range fs {
			if strings.HasSuffix(f, "_verif.go") {
				if err := sp.loadFile(f, p.PkgPath); err != nil {
					return err
				}
			}
		}
	}
	if extra != "" {
		if err := sp.loadFile(extra, ""); err != nil {
			return err
		}
	}
	e.resolveSigKeys(sp)
	sp.finishSweep()
	e.spec = sp
	return nil
}

// resolveSigKeys: a closure may be addressed by its parameter types instead of its ordinal -
// "parent$(T1,T2)" is the only function literal directly inside parent with that parameter list. An edit
// that adds or removes another literal in the parent renumbers the ordinals but leaves this key valid.
// No candidate or several: the key stays unresolved and is reported like any contract whose function is gone.
func (e *Engine) resolveSigKeys(sp *Spec) {
	var keys []string
	for k := range sp.Contracts {
		if strings.Contains(k, "$(") && (strings.HasSuffix(k, ")") || strings.Contains(k[strings.LastIndex(k, "$("):], ")#")) {
			keys = append(keys, k)
		}
	}
	sort.Strings(keys)
	for _, k := range keys {
		c := sp.Contracts[k]
		i := strings.LastIndex(k, "$(")
		// optional "#n": the n-th literal (source order) among those with this parameter list
		nth, kk := 0, k
		if j := strings.LastIndex(k, ")#"); j > i {
			fmt.Sscanf(k[j+2:], "%d", &nth)
			kk = k[:j+1]
		}
		parent, sig := kk[:i], strings.ReplaceAll(kk[i+2:len(kk)-1], " ", "")
		var cands []string
		for fk, f := range e.fns {
			if f.Parent() == nil || f.Pkg == nil || f.Parent().Pkg == nil {
				continue
			}
			if f.Parent().Pkg.Pkg.Path()+"::"+f.Parent().RelString(f.Parent().Pkg.Pkg) != parent {
				continue
			}
			var ts []string
			for _, p := range f.Params {
				ts = append(ts, types.TypeString(p.Type(), types.RelativeTo(f.Pkg.Pkg)))
			}
			if strings.ReplaceAll(strings.Join(ts, ","), " ", "") == sig {
				cands = append(cands, fk)
			}
		}
		sort.Slice(cands, func(a, b int) bool { return e.fns[cands[a]].Pos() < e.fns[cands[b]].Pos() })
		if nth == 0 && len(cands) == 1 {
			nth = 1
		}
		if nth < 1 || nth > len(cands) || (nth == 0 && len(cands) != 1) {
			continue
		}
		real := cands[nth-1]
		if prev := sp.Contracts[real]; prev != nil {
			if !strings.HasSuffix(prev.File, "sweep_verif.go") {
				continue // an ordinal-keyed hand-written contract exists as well: leave both, the duplicate is reported as missing
			}
			if sp.sweepDup == nil {
				sp.sweepDup = map[string]*Contract{}
			}
			sp.sweepDup[real] = c
		}
		delete(sp.Contracts, k)
		c.Key = real[strings.Index(real, "::")+2:]
		sp.Contracts[real] = c
	}
}

// srcLine returns the trimmed source line at a position (used to name run-time-error obligations
// by what the programmer wrote, not by SSA temporaries).
func (e *Engine) srcLine(file string, line int) string {
	ls, ok := e.srcTxt[file]
	if !ok {
		data, err := os.ReadFile(file)
		if err == nil {
			ls = strings.Split(string(data), "\n")
		}
		e.srcTxt[file] = ls
	}
	if line-1 < len(ls) && line >= 1 {
		return strings.TrimSpace(ls[line-1])
	}
	return ""
}

func usage() {
	fmt.Fprintln(os.Stderr, `usage:
  ucfgvc check <property> [--tier quick|thorough] [--repo /repo] [--verif /verif]
  ucfgvc run [-fn substr] [-prop id] [-kinds k1,k2] [-timeout s] [-v] [-keep dir] [-replay]
  ucfgvc replay <replay.json>
  ucfgvc list`)
	os.Exit(2)
}

func main() {
	if len(os.Args) < 2 {
		usage()
	}
	switch os.Args[1] {
	case "check":
		os.Exit(cmdCheck(os.Args[2:]))
	case "run":
		os.Exit(cmdRun(os.Args[2:]))
	case "replay":
		os.Exit(cmdReplay(os.Args[2:]))
	case "list":
		os.Exit(cmdList(os.Args[2:]))
	case "ssa":
		os.Exit(cmdSSA(os.Args[2:]))
	case "sweep":
		os.Exit(cmdSweep(os.Args[2:]))
	default:
		usage()
	}
}

func cmdList(args []string) int {
	fs := flag.NewFlagSet("list", flag.ExitOnError)
	repo := fs.String("repo", "/repo", "repository")
	verif := fs.String("verif", "/verif", "verif dir")
	fs.Parse(args)
	e, err := load(*repo)
	if err != nil {
		fmt.Println("load:", err)
		return 2
	}
	if err := e.loadContracts(*verif, ""); err != nil {
		fmt.Println("contracts:", err)
		return 2
	}
	byProp := map[string][]string{}
	var trusted []string
	for k, c := range e.spec.Contracts {
		if c.Extern || c.Trusted || strings.HasPrefix(c.Key, "iface:") {
			if c.Trusted {
				trusted = append(trusted, k)
			}
			continue
		}
		for _, p := range c.Props {
			byProp[p] = append(byProp[p], c.Key)
		}
		if len(c.Props) == 0 {
			byProp["(none)"] = append(byProp["(none)"], c.Key)
		}
	}
	var ps []string
	for p := range byProp {
		ps = append(ps, p)
	}
	sort.Strings(ps)
	for _, p := range ps {
		sort.Strings(byProp[p])
		fmt.Printf("%s (%d): %s\n", p, len(byProp[p]), strings.Join(byProp[p], ", "))
	}
	sort.Strings(trusted)
	fmt.Printf("trusted (%d): %s\n", len(trusted), strings.Join(trusted, ", "))
	return 0
}

func firstLines(s string, n int) string {
	l := strings.Split(s, "\n")
	if len(l) > n {
		l = l[:n]
	}
	return strings.Join(l, " | ")
}

func uniq(s []string) []string {
	m := map[string]bool{}
	var o []string
	for _, x := range s {
		if !m[x] {
			m[x] = true
			o = append(o, x)
		}
	}
	return o
}

// cmdSSA prints the SSA of the functions whose key contains the argument (development aid).
func cmdSSA(args []string) int {
	e, err := load("/repo")
	if err != nil {
		fmt.Println(err)
		return 2
	}
	var keys []string
	for k := range e.fns {
		if len(args) > 0 && strings.Contains(k, args[0]) {
			keys = append(keys, k)
		}
	}
	sort.Strings(keys)
	for _, k := range keys {
		fmt.Println("=====", k)
		e.fns[k].WriteTo(os.Stdout)
	}
	return 0
}

// cmdSweep (development aid for C07): for every function of the module that is not under contract yet,
// generate the run-time-error obligations with zero annotation (nil dereferences not claimed) and report
// which functions discharge completely; those can be added to the C07 sweep as they are.
func cmdSweep(args []string) int {
	e, err := load("/repo")
	if err != nil {
		fmt.Println(err)
		return 2
	}
	if err := e.loadContracts("/verif", ""); err != nil {
		fmt.Println(err)
		return 2
	}
	var keys []string
	for k, f := range e.fns {
		if !strings.HasPrefix(k, modPrefix) || len(f.Blocks) == 0 {
			continue
		}
		pos := e.prog.Fset.Position(f.Pos())
		if strings.HasSuffix(pos.Filename, "_test.go") || strings.HasSuffix(pos.Filename, "_verif.go") || strings.Contains(pos.Filename, "/cfgtest/") {
			continue
		}
		if len(args) > 0 && !strings.Contains(k, args[0]) {
			continue
		}
		if c := e.spec.Contracts[k]; c != nil {
			if c.hasProp("C07") || c.Trusted {
				continue
			}
			continue // under contract for other properties: add C07 by hand if wanted
		}
		keys = append(keys, k)
	}
	sort.Strings(keys)
	dir, _ := os.MkdirTemp("", "ucfgvc-sweep")
	defer os.RemoveAll(dir)
	for _, k := range keys {
		parts := strings.SplitN(k, "::", 2)
		e.spec.Contracts[k] = &Contract{Pkg: parts[0], Key: parts[1], Mode: "int", Loops: map[int]*LoopSpec{}, NoNil: true, Props: []string{"C07"}}
		g := e.generate([]string{k}, "C07", "rte.", dir, false)
		if len(g.toolErrs) > 0 {
			fmt.Printf("TOOLERR %s: %s\n", k, g.toolErrs[0])
			delete(e.spec.Contracts, k)
			continue
		}
		solveAll(g.jobs, solveCfg{t1: 4, t2: 8, par: 14})
		bad := 0
		var first string
		for _, j := range g.jobs {
			if j.o.Kind != "cover" && j.status != "unsat" {
				bad++
				if first == "" {
					first = j.o.Name
				}
			}
		}
		n := 0
		for _, j := range g.jobs {
			if j.o.Kind != "cover" {
				n++
			}
		}
		st := "CLEAN"
		if bad > 0 {
			st = "FAILS"
		}
		fmt.Printf("%s %s obligations=%d failing=%d %s\n", st, k, n, bad, first)
		delete(e.spec.Contracts, k)
	}
	return 0
}

package main

import (
	"context"
	"flag"
	"fmt"
	"go/types"
	"os"
	"os/exec"
	"path/filepath"
	"sort"
	"strings"
	"sync"
	"time"

	"golang.org/x/tools/go/packages"
	"golang.org/x/tools/go/ssa"
	"golang.org/x/tools/go/ssa/ssautil"
)

type Engine struct {
	prog  *ssa.Program
	pkgs  map[string]*ssa.Package
	tpkgs map[string]*types.Package
	spec  *Spec
	fns   map[string]*ssa.Function // pkg::key
}

func (e *Engine) typesPkg(path string) *types.Package {
	if p, ok := e.tpkgs[path]; ok {
		return p
	}
	return nil
}

func load(dir string) (*Engine, error) {
	cfg := &packages.Config{Mode: packages.LoadAllSyntax, Dir: dir, BuildFlags: []string{"-tags=verif"}, Env: append(os.Environ(), "GOFLAGS=-mod=mod", "GOPROXY=off", "GOSUMDB=off")}
	pkgs, err := packages.Load(cfg, "./...")
	if err != nil {
		return nil, err
	}
	if packages.PrintErrors(pkgs) > 0 {
		return nil, fmt.Errorf("load errors")
	}
	prog, _ := ssautil.AllPackages(pkgs, ssa.GlobalDebug)
	prog.Build()
	e := &Engine{prog: prog, pkgs: map[string]*ssa.Package{}, tpkgs: map[string]*types.Package{}, fns: map[string]*ssa.Function{}}
	for _, p := range prog.AllPackages() {
		e.pkgs[p.Pkg.Path()] = p
		e.tpkgs[p.Pkg.Path()] = p.Pkg
	}
	for f := range ssautil.AllFunctions(prog) {
		if f.Pkg == nil || f.Synthetic != "" {
			continue
		}
		e.fns[f.Pkg.Pkg.Path()+"::"+f.RelString(f.Pkg.Pkg)] = f
	}
	return e, nil
}

type result struct {
	o      *Obl
	status string // unsat sat unknown timeout error
	solver string
	secs   float64
	model  string
	file   string
}

func (v *fnVC) emit(o *Obl, restrict T) string {
	var sb strings.Builder
	sb.WriteString("(set-option :produce-models true)\n")
	sb.WriteString("; obligation " + o.Name + "\n; " + o.Text + "\n; " + o.Pos + "\n")
	sb.WriteString(v.P.text())
	sb.WriteString("\n")
	for _, f := range v.facts {
		if f.blk == o.blk {
			if f.idx >= o.idx {
				continue
			}
		} else if !v.anc[o.blk][f.blk] {
			continue
		}
		sb.WriteString(f.text)
		sb.WriteString("\n")
	}
	if restrict != "" {
		sb.WriteString("(assert " + restrict + ")\n")
	}
	sb.WriteString("(assert " + o.Reach + ")\n")
	sb.WriteString("(assert (not " + o.Goal + "))\n")
	sb.WriteString("(check-sat)\n")
	if len(o.Inputs) > 0 {
		sb.WriteString("(get-value (" + strings.Join(o.Inputs, " ") + "))\n")
	}
	return sb.String()
}

var solvers = [][]string{{"z3-new", "-T:%d"}, {"z3", "-T:%d"}, {"cvc5", "--tlimit=%d000"}}

func solve(file string, timeout int, only string) (string, string, float64, string) {
	type ans struct {
		status, solver, out string
		secs           float64
	}
	ctx, cancel := context.WithCancel(context.Background())
	defer cancel()
	ch := make(chan ans, len(solvers))
	n := 0
	for _, s := range solvers {
		if only != "" && s[0] != only {
			continue
		}
		n++
		go func(s []string) {
			t0 := time.Now()
			args := []string{fmt.Sprintf(s[1], timeout)}
			if s[0] == "cvc5" {
				args = append(args, "--produce-models")
			}
			args = append(args, file)
			cmd := exec.CommandContext(ctx, s[0], args...)
			out, _ := cmd.CombinedOutput()
			line := strings.TrimSpace(strings.SplitN(string(out), "\n", 2)[0])
			st := "unknown"
			switch {
			case line == "unsat":
				st = "unsat"
			case line == "sat":
				st = "sat"
			case strings.HasPrefix(line, "(error") || strings.Contains(line, "rror"):
				st = "error"
			case line == "timeout":
				st = "timeout"
			}
			ch <- ans{st, s[0], string(out), time.Since(t0).Seconds()}
		}(s)
	}
	var last ans
	for i := 0; i < n; i++ {
		a := <-ch
		if a.status == "unsat" || a.status == "sat" {
			return a.status, a.solver, a.secs, a.out
		}
		if last.status == "" || a.status == "error" {
			last = a
		}
	}
	return last.status, last.solver, last.secs, last.out
}

func main() {
	dir := flag.String("repo", "/repo", "repository")
	specFile := flag.String("spec", "contracts.spec", "contract file")
	keep := flag.String("keep", "", "directory to keep smt files")
	only := flag.String("fn", "", "only functions whose key contains this")
	kinds := flag.String("kinds", "", "comma list of obligation kind prefixes")
	timeout := flag.Int("timeout", 10, "seconds")
	solver := flag.String("solver", "", "single solver")
	verbose := flag.Bool("v", false, "verbose")
	doReplay := flag.Bool("replay", false, "replay models of failed obligations against the real code")
	flag.Parse()

	t0 := time.Now()
	e, err := load(*dir)
	if err != nil {
		fmt.Println("load:", err)
		os.Exit(2)
	}
	sp, err := loadSpec(*specFile)
	if err != nil {
		fmt.Println("spec:", err)
		os.Exit(2)
	}
	e.spec = sp
	fmt.Printf("loaded in %.1fs; %d contracts\n", time.Since(t0).Seconds(), len(sp.Contracts))

	outDir := *keep
	if outDir == "" {
		outDir, _ = os.MkdirTemp("", "ucfgvc")
		defer os.RemoveAll(outDir)
	} else {
		os.MkdirAll(outDir, 0o755)
	}
	var keys []string
	for k, c := range sp.Contracts {
		if c.Extern || c.Trusted || strings.HasPrefix(c.Key, "iface:") {
			continue
		}
		if *only != "" && !strings.Contains(k, *only) {
			continue
		}
		keys = append(keys, k)
	}
	sort.Strings(keys)

	type job struct {
		o    *Obl
		file string
		v    *fnVC
	}
	var jobs []job
	coverDone := map[string]bool{}
	for _, k := range keys {
		fn := e.fns[k]
		if fn == nil {
			fmt.Println("TOOL-ERROR: contract for unknown function", k)
			os.Exit(2)
		}
		con := sp.Contracts[k]
		v := &fnVC{e: e, fn: fn, con: con, P: newPrelude(con.Mode == "bv"), vals: map[ssa.Value]T{}, reach: map[*ssa.BasicBlock]T{}, memOut: map[*ssa.BasicBlock]map[string]T{}, cur: map[string]T{}, memSrt: map[string]string{}, oblCnt: map[string]int{}, tuples: map[ssa.Value][]T{}, usedContracts: map[string]bool{}, grounded: map[string]bool{}, closures: map[ssa.Value]*ssa.MakeClosure{}, rangeOf: map[*ssa.Range]ssa.Value{}}
		func() {
			defer func() {
				if r := recover(); r != nil {
					fmt.Printf("TOOL-ERROR in %s: %v\n", k, r)
					if *verbose {
						panic(r)
					}
				}
			}()
			v.run()
		}()
		if len(v.unsupported) > 0 {
			fmt.Printf("  [%s] unsupported constructs: %v\n", con.Key, uniq(v.unsupported))
		}
		for _, o := range v.obls {
			if *kinds != "" {
				ok := false
				for _, kd := range strings.Split(*kinds, ",") {
					if strings.HasPrefix(o.Kind, kd) {
						ok = true
					}
				}
				if !ok {
					continue
				}
			}
			if o.Reach == "" {
				continue
			}
			file := filepath.Join(outDir, fmt.Sprintf("%s_%03d.smt2", sanitize(con.Key), len(jobs)))
			os.WriteFile(file, []byte(v.emit(o, "")), 0o644)
			jobs = append(jobs, job{o, file, v})
			if strings.HasPrefix(o.Kind, "post.") && !coverDone[fmt.Sprint(con.Key, o.blk.Index)] {
				// vacuity guard: the quantifier-free fragment of the path facts must be satisfiable
				coverDone[fmt.Sprint(con.Key, o.blk.Index)] = true
				co := &Obl{Name: fmt.Sprintf("%s#cover.return[block %d]", con.Key, o.blk.Index), Kind: "cover", Goal: "false", Reach: o.Reach, blk: o.blk, idx: o.idx}
				var sb strings.Builder
				for _, l := range strings.Split(v.emit(co, ""), "\n") {
					if strings.Contains(l, "forall") || strings.HasPrefix(l, "(get-value") {
						continue
					}
					sb.WriteString(l + "\n")
				}
				cfile := filepath.Join(outDir, fmt.Sprintf("%s_%03d_cover.smt2", sanitize(con.Key), len(jobs)))
				os.WriteFile(cfile, []byte(sb.String()), 0o644)
				jobs = append(jobs, job{co, cfile, v})
			}
		}
	}
	jobOf := map[*Obl]*fnVC{}
	for _, j := range jobs {
		jobOf[j.o] = j.v
	}
	results := make([]result, len(jobs))
	var wg sync.WaitGroup
	sem := make(chan struct{}, 14)
	for i, j := range jobs {
		wg.Add(1)
		go func(i int, j job) {
			defer wg.Done()
			sem <- struct{}{}
			defer func() { <-sem }()
			st, sv, secs, out := solve(j.file, *timeout, *solver)
			results[i] = result{o: j.o, status: st, solver: sv, secs: secs, model: out, file: j.file}
		}(i, j)
	}
	wg.Wait()
	counts := map[string]int{}
	var total float64
	for i := range results {
		if results[i].o.Kind == "cover" {
			switch results[i].status {
			case "sat":
				results[i].status = "unsat" // cover satisfied: report as discharged
			case "unsat":
				results[i].status = "VACUOUS"
			}
		}
	}
	for _, r := range results {
		counts[r.status]++
		total += r.secs
		if r.status != "unsat" || *verbose {
			fmt.Printf("%-8s %-7s %5.2fs %s\n", r.status, r.solver, r.secs, r.o.Name)
			if r.status == "sat" {
				lines := strings.Split(strings.TrimSpace(r.model), "\n")
				if len(lines) > 1 {
					ms := strings.Join(lines[1:], " ")
					if len(ms) > 300 {
						ms = ms[:300] + " ..."
					}
					fmt.Printf("         model: %s\n", ms)
				}
			}
			if r.status == "error" {
				fmt.Printf("         %s\n", firstLines(r.model, 3))
			}
			if *doReplay && (r.status == "sat" || r.status == "unknown") && r.o.Kind != "cover" {
				model := r.model
				how := "model"
				if r.status == "unknown" {
					// candidate model from the quantifier-free fragment; trusted only if the replay reproduces
					var sb strings.Builder
					data, _ := os.ReadFile(r.file)
					for _, l := range strings.Split(string(data), "\n") {
						if !strings.Contains(l, "forall") {
							sb.WriteString(l + "\n")
						}
					}
					qf := r.file + ".qf.smt2"
					os.WriteFile(qf, []byte(sb.String()), 0o644)
					st, _, _, out := solve(qf, *timeout, "z3-new")
					if st != "sat" {
						fmt.Printf("         replay: no candidate model (%s) -> no-failing-input-found\n", st)
						continue
					}
					model, how = out, "candidate model (quantifier-free fragment)"
				}
				vals := parseGetValue(model)
				jv := jobOf[r.o]
				content, ok := buildReplay(jv.fn, jv.inputs, vals, r.o)
				if !ok {
					fmt.Printf("         replay: inputs not constructible -> no-failing-input-found\n")
					continue
				}
				res := runReplay(*dir, jv.fn, content, filepath.Join(outDir, "replay"))
				fmt.Printf("         replay (%s): %s\n", how, res)
			}
		}
	}
	fmt.Printf("obligations=%d %v solver-time=%.1fs wall=%.1fs\n", len(results), counts, total, time.Since(t0).Seconds())
}

func firstLines(s string, n int) string {
	l := strings.Split(s, "\n")
	if len(l) > n {
		l = l[:n]
	}
	return strings.Join(l, " | ")
}

func uniq(s []string) []string {
	m := map[string]bool{}
	var o []string
	for _, x := range s {
		if !m[x] {
			m[x] = true
			o = append(o, x)
		}
	}
	return o
}

package main

import (
	"fmt"
	"strings"
)

// Terms are plain s-expression strings; sorts too.
type T = string

func app(op string, args ...T) T {
	if len(args) == 0 {
		return op
	}
	return "(" + op + " " + strings.Join(args, " ") + ")"
}
func and(args ...T) T {
	var a []T
	for _, x := range args {
		if x == "true" {
			continue
		}
		a = append(a, x)
	}
	switch len(a) {
	case 0:
		return "true"
	case 1:
		return a[0]
	}
	return app("and", a...)
}
func or(args ...T) T {
	var a []T
	for _, x := range args {
		if x == "false" {
			continue
		}
		a = append(a, x)
	}
	switch len(a) {
	case 0:
		return "false"
	case 1:
		return a[0]
	}
	return app("or", a...)
}
func not(a T) T {
	if a == "true" {
		return "false"
	}
	if a == "false" {
		return "true"
	}
	return app("not", a)
}
func implies(a, b T) T {
	if a == "true" {
		return b
	}
	return app("=>", a, b)
}
func eq(a, b T) T      { return app("=", a, b) }
func ite(c, a, b T) T  { return app("ite", c, a, b) }
func sel(a, i T) T     { return app("select", a, i) }
func sto(a, i, v T) T  { return app("store", a, i, v) }
func intLit(n int64) T {
	if n < 0 {
		return fmt.Sprintf("(- %d)", -n)
	}
	return fmt.Sprintf("%d", n)
}
func bigLit(s string) T {
	if strings.HasPrefix(s, "-") {
		return "(- " + s[1:] + ")"
	}
	return s
}
func sanitize(s string) string {
	r := strings.NewReplacer("/", "_", ".", "_", "*", "P", "(", "", ")", "", " ", "_", "$", "S", "[", "L", "]", "R", ",", "_", "{", "", "}", "", "-", "_")
	return r.Replace(s)
}

// inTree(c, x): object x belongs to the tree of configuration c; the tree of the nil configuration is empty.
const inTreeDecl = "(declare-fun inTree (Int Int) Bool)\n(assert (forall ((x Int)) (! (not (inTree 0 x)) :pattern ((inTree 0 x)))))"

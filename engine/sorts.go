package main

import (
	"fmt"
	"go/types"
	"sort"
	"strings"
)

const modPrefix = "github.com/elastic/go-ucfg"

// Prelude holds global (per obligation file) declarations generated lazily.
type Prelude struct {
	bv       bool
	decls    []string
	seen     map[string]bool
	typeTags map[string]int
	errIface *types.Interface // the module's Error interface (typed errors, C14)
	lits     map[string]string
	structs  map[string]*types.Struct
	pending  []string
	fieldKinds []string
}

func newPrelude(bv bool) *Prelude {
	p := &Prelude{bv: bv, seen: map[string]bool{}, typeTags: map[string]int{}, lits: map[string]string{}, structs: map[string]*types.Struct{}}
	p.add("base", `(declare-sort Str 0)
(declare-fun slen (Str) Int)
(declare-fun sat (Str Int) Int)
(declare-datatypes ((Iface 0)) (((mkI (itag Int) (ipay Int)))))
(declare-datatypes ((Slice 0)) (((mkS (sbase Int) (soff Int) (slen_ Int) (scap Int)))))
(declare-fun isptrtag (Int) Bool)
(declare-fun impl_ucfg_Error (Int) Bool)
(declare-fun elem (Int Int) Int)
(declare-fun ebase (Int) Int)
(declare-fun eidx (Int) Int)
(declare-fun akind (Int) Int)
(declare-fun root (Int) Int)
(declare-sort F64 0)
(declare-sort Opaque 0)`)
	if !bv {
		p.add("wrap", `(define-fun wrap64 ((x Int)) Int (- (mod (+ x 9223372036854775808) 18446744073709551616) 9223372036854775808))
(define-fun wrapu64 ((x Int)) Int (mod x 18446744073709551616))
(define-fun wrap32 ((x Int)) Int (- (mod (+ x 2147483648) 4294967296) 2147483648))
(define-fun wrapu32 ((x Int)) Int (mod x 4294967296))
(define-fun wrap16 ((x Int)) Int (- (mod (+ x 32768) 65536) 32768))
(define-fun wrapu16 ((x Int)) Int (mod x 65536))
(define-fun wrap8 ((x Int)) Int (- (mod (+ x 128) 256) 128))
(define-fun wrapu8 ((x Int)) Int (mod x 256))`)
	}
	return p
}

func (p *Prelude) add(key, text string) {
	if p.seen[key] {
		return
	}
	p.seen[key] = true
	p.decls = append(p.decls, text)
}

func (p *Prelude) tag(t types.Type) int {
	k := types.TypeString(t, nil)
	if v, ok := p.typeTags[k]; ok {
		return v
	}
	v := len(p.typeTags) + 1
	p.typeTags[k] = v
	if p.errIface != nil {
		if types.Implements(t, p.errIface) {
			p.decls = append(p.decls, fmt.Sprintf("(assert (impl_ucfg_Error %d))", v))
		} else if _, isIface := t.Underlying().(*types.Interface); !isIface {
			p.decls = append(p.decls, fmt.Sprintf("(assert (not (impl_ucfg_Error %d)))", v))
		}
	}
	// only pointer-shaped dynamic types carry a heap reference as payload; other values are boxed
	switch t.Underlying().(type) {
	case *types.Pointer, *types.Map, *types.Chan:
		p.decls = append(p.decls, fmt.Sprintf("(assert (isptrtag %d))", v))
	default:
		p.decls = append(p.decls, fmt.Sprintf("(assert (not (isptrtag %d)))", v))
	}
	return v
}

func inModule(n *types.Named) bool {
	return n.Obj().Pkg() != nil && strings.HasPrefix(n.Obj().Pkg().Path(), modPrefix)
}

func intInfo(b *types.Basic) (bits int, signed bool, ok bool) {
	switch b.Kind() {
	case types.Int, types.Int64:
		return 64, true, true
	case types.Int32, types.UntypedRune:
		return 32, true, true
	case types.Int16:
		return 16, true, true
	case types.Int8:
		return 8, true, true
	case types.Uint, types.Uint64, types.Uintptr:
		return 64, false, true
	case types.Uint32:
		return 32, false, true
	case types.Uint16:
		return 16, false, true
	case types.Uint8:
		return 8, false, true
	case types.UntypedInt:
		return 64, true, true
	}
	return 0, false, false
}

// sortOf maps a Go type to an SMT sort, declaring datatypes as needed.
func (p *Prelude) sortOf(t types.Type) string {
	switch u := t.Underlying().(type) {
	case *types.Basic:
		if u.Info()&types.IsBoolean != 0 {
			return "Bool"
		}
		if bits, _, ok := intInfo(u); ok {
			if p.bv {
				return fmt.Sprintf("(_ BitVec %d)", bits)
			}
			return "Int"
		}
		if u.Info()&types.IsFloat != 0 {
			if p.bv {
				if u.Kind() == types.Float32 {
					return "(_ FloatingPoint 8 24)"
				}
				return "(_ FloatingPoint 11 53)"
			}
			return "F64"
		}
		if u.Info()&types.IsString != 0 {
			return "Str"
		}
		if u.Kind() == types.UnsafePointer {
			return "Int"
		}
		if u.Kind() == types.UntypedNil {
			return "Int"
		}
	case *types.Pointer, *types.Map, *types.Chan, *types.Signature:
		return "Int"
	case *types.Slice:
		return "Slice"
	case *types.Interface:
		return "Iface"
	case *types.Array:
		return fmt.Sprintf("(Array Int %s)", p.sortOf(u.Elem()))
	case *types.Struct:
		if n, ok := t.(*types.Named); ok && inModule(n) {
			return p.structSort(n, u)
		}
		if n, ok := t.(*types.Named); ok {
			name := "X_" + sanitize(n.Obj().Pkg().Name()+"_"+n.Obj().Name())
			p.add("sort:"+name, fmt.Sprintf("(declare-sort %s 0)", name))
			return name
		}
		return "Opaque"
	case *types.Tuple:
		return "Opaque"
	}
	return "Opaque"
}

func structName(n *types.Named) string {
	return "S_" + sanitize(n.Obj().Pkg().Name()+"_"+n.Obj().Name())
}

func (p *Prelude) structSort(n *types.Named, st *types.Struct) string {
	name := structName(n)
	if p.seen["struct:"+name] {
		return name
	}
	p.seen["struct:"+name] = true
	p.structs[name] = st
	var fs []string
	for i := 0; i < st.NumFields(); i++ {
		f := st.Field(i)
		fs = append(fs, fmt.Sprintf("(%s_%s %s)", name, f.Name(), p.sortOf(f.Type())))
	}
	if len(fs) == 0 {
		fs = append(fs, fmt.Sprintf("(%s__dummy Int)", name))
	}
	p.decls = append(p.decls, fmt.Sprintf("(declare-datatypes ((%s 0)) (((mk_%s %s))))", name, name, strings.Join(fs, " ")))
	return name
}

// fieldAddr declares the address function for field f of struct type n.
func (p *Prelude) fieldFn(n *types.Named, fname string) string {
	fn := "fld_" + structName(n) + "_" + fname
	if !p.seen[fn] {
		p.fieldKinds = append(p.fieldKinds, fn)
		p.add(fn, fmt.Sprintf("(declare-fun %[1]s (Int) Int)\n(declare-fun inv_%[1]s (Int) Int)", fn))
	}
	return fn
}

func (p *Prelude) fieldKind(fn string) int {
	for i, f := range p.fieldKinds {
		if f == fn {
			return i + 1
		}
	}
	return 0
}

func (p *Prelude) memName(sortName string) string {
	m := "M_" + sanitize(strings.NewReplacer("(", "", ")", "", " ", "_").Replace(sortName))
	return m
}

func (p *Prelude) zero(t types.Type) T {
	switch u := t.Underlying().(type) {
	case *types.Basic:
		if u.Info()&types.IsBoolean != 0 {
			return "false"
		}
		if bits, _, ok := intInfo(u); ok {
			if p.bv {
				return fmt.Sprintf("(_ bv0 %d)", bits)
			}
			return "0"
		}
		if u.Info()&types.IsString != 0 {
			return p.strLit("")
		}
		if u.Info()&types.IsFloat != 0 {
			if p.bv {
				if u.Kind() == types.Float32 {
					return "(_ +zero 8 24)"
				}
				return "(_ +zero 11 53)"
			}
			p.add("f64zero", "(declare-const f64_zero F64)")
			return "f64_zero"
		}
		return "0"
	case *types.Pointer, *types.Map, *types.Chan, *types.Signature:
		return "0"
	case *types.Slice:
		return "(mkS 0 0 0 0)"
	case *types.Interface:
		return "(mkI 0 0)"
	case *types.Struct:
		if n, ok := t.(*types.Named); ok && inModule(n) {
			name := p.structSort(n, u)
			var fs []string
			for i := 0; i < u.NumFields(); i++ {
				fs = append(fs, p.zero(u.Field(i).Type()))
			}
			if len(fs) == 0 {
				fs = []string{"0"}
			}
			return app("mk_"+name, fs...)
		}
	case *types.Array:
		return fmt.Sprintf("((as const %s) %s)", p.sortOf(t), p.zero(u.Elem()))
	}
	s := p.sortOf(t)
	z := "zero_" + sanitize(s)
	p.add(z, fmt.Sprintf("(declare-const %s %s)", z, s))
	return z
}

func (p *Prelude) strLit(s string) T {
	if c, ok := p.lits[s]; ok {
		return c
	}
	c := fmt.Sprintf("lit%d", len(p.lits))
	p.lits[s] = c
	var b strings.Builder
	fmt.Fprintf(&b, "(declare-const %s Str)\n(assert (= (slen %s) %d))", c, c, len(s))
	for i := 0; i < len(s); i++ {
		fmt.Fprintf(&b, "\n(assert (= (sat %s %d) %d))", c, i, s[i])
	}
	p.decls = append(p.decls, b.String())
	return c
}

func (p *Prelude) text() string {
	// distinctness of string literals of the same length is implied by bytes; add extensionality on demand elsewhere
	var keys []string
	for k := range p.typeTags {
		keys = append(keys, k)
	}
	sort.Strings(keys)
	return strings.Join(p.decls, "\n")
}

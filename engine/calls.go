package main

import (
	"fmt"
	"go/token"
	"go/types"
	"sort"
	"strings"

	"golang.org/x/tools/go/ssa"
)

// leafSorts enumerates the memory sorts that a store of type t touches.
func (v *fnVC) leafSorts(t types.Type, out map[string]bool) {
	if _, st, ok := v.isModStruct(t); ok {
		for i := 0; i < st.NumFields(); i++ {
			v.leafSorts(st.Field(i).Type(), out)
		}
		return
	}
	if at, ok := t.Underlying().(*types.Array); ok {
		v.leafSorts(at.Elem(), out)
		return
	}
	s := v.P.sortOf(t)
	m := v.memNameFor(s)
	v.memSrt[m] = s
	out[m] = true
}

type leafPath struct {
	mem    string
	wrap   func(e T) T // address of the leaf inside element address e
	unwrap func(a T) T // element address recovered from a leaf address
	fns    []string
}

// leafPaths enumerates the leaf locations of a value of type t stored at an element address.
func (v *fnVC) leafPaths(t types.Type) []leafPath {
	if n, st, ok := v.isModStruct(t); ok {
		var out []leafPath
		for i := 0; i < st.NumFields(); i++ {
			fn := v.P.fieldFn(n, st.Field(i).Name())
			for _, sub := range v.leafPaths(st.Field(i).Type()) {
				sub := sub
				out = append(out, leafPath{
					mem:    sub.mem,
					wrap:   func(e T) T { return sub.wrap(app(fn, e)) },
					unwrap: func(a T) T { return app("inv_"+fn, sub.unwrap(a)) },
					fns:    append([]string{fn}, sub.fns...),
				})
			}
		}
		return out
	}
	if at, ok := t.Underlying().(*types.Array); ok {
		// fixed arrays inside elements: treat each index (bounded) as a leaf path
		var out []leafPath
		for i := int64(0); i < at.Len() && i < 8; i++ {
			idx := intLit(i)
			for _, sub := range v.leafPaths(at.Elem()) {
				sub := sub
				out = append(out, leafPath{
					mem:    sub.mem,
					wrap:   func(e T) T { return sub.wrap(app("elem", e, idx)) },
					unwrap: func(a T) T { return app("ebase", sub.unwrap(a)) },
					fns:    sub.fns,
				})
			}
		}
		return out
	}
	s := v.P.sortOf(t)
	m := v.P.memName(s)
	v.memSrt[m] = s
	return []leafPath{{mem: m, wrap: func(e T) T { return e }, unwrap: func(a T) T { return a }}}
}

func (v *fnVC) needInverseAxioms(lp leafPath) {
	for _, fn := range lp.fns {
		v.P.add("ax:"+fn, fmt.Sprintf("(assert (forall ((x Int)) (! (and (= (inv_%[1]s (%[1]s x)) x) (= (akind (%[1]s x)) %[2]d) (= (root (%[1]s x)) (root x))) :pattern ((%[1]s x)))))", fn, v.P.fieldKind(fn)))
	}
}

func (v *fnVC) memOrEntry(m string) T {
	if t, ok := v.cur[m]; ok {
		return t
	}
	return v.mem0(m)
}

func (v *fnVC) havocAll(why string) {
	v.notes = append(v.notes, "havoc-all: "+why)
	before := copyMap(v.cur)
	defer v.keepPrivateCells(before)
	for m := range v.memSrt {
		if m == allocMem || m == deferMem || m == visMem || m == rvMem || strings.HasPrefix(m, "L_") {
			continue // ghost state and non-escaping locals are out of a callee's reach (the allocation set only grows)
		}
		c := v.newConst(m, fmt.Sprintf("(Array Int %s)", v.memSrt[m]))
		v.cur[m] = c
	}
	v.havocked = true
}

func (v *fnVC) calleeKey(c *ssa.CallCommon) (pkg, key string, fn *ssa.Function) {
	if c.IsInvoke() {
		recv := c.Value.Type()
		name := types.TypeString(recv, func(p *types.Package) string { return "" })
		p := ""
		if n, ok := recv.(*types.Named); ok && n.Obj().Pkg() != nil {
			p = n.Obj().Pkg().Path()
		}
		return p, "iface:" + strings.TrimPrefix(name, ".") + "." + c.Method.Name(), nil
	}
	f := c.StaticCallee()
	if f == nil {
		return "", "", nil
	}
	if f.Pkg == nil {
		// synthetic / method of instantiated: try object
		if f.Object() != nil && f.Object().Pkg() != nil {
			return f.Object().Pkg().Path(), f.RelString(f.Object().Pkg()), f
		}
		return "", f.String(), f
	}
	return f.Pkg.Pkg.Path(), f.RelString(f.Pkg.Pkg), f
}

const deferMem = "DEFER"

// rvMem: ghost memory for the content version of reflect storage (the variables and objects reflect.Value handles
// refer to), indexed by storage root. It changes only through the rvwrites items of callee contracts (assumed
// summaries of their effect on reflect storage); a call into the module, through an interface or of a function
// value whose contract has no rvwrites directive may write any storage: the whole memory is havoc'd. Used only
// by functions whose contract mentions rvver (C13).
const rvMem = "RV"

// handlesReflect: some parameter (or the receiver) is, or directly contains by value, a reflect.Value, an
// interface other than error, or a function value.
func handlesReflect(sig *types.Signature) bool {
	var has func(t types.Type, depth int) bool
	has = func(t types.Type, depth int) bool {
		if n, ok := t.(*types.Named); ok && n.Obj().Pkg() != nil && n.Obj().Pkg().Path() == "reflect" {
			return true
		}
		switch u := t.Underlying().(type) {
		case *types.Interface:
			return !internalIface(t)
		case *types.Signature:
			return true
		case *types.Struct:
			if depth > 2 {
				return true
			}
			for i := 0; i < u.NumFields(); i++ {
				if has(u.Field(i).Type(), depth+1) {
					return true
				}
			}
		case *types.Slice:
			return has(u.Elem(), depth+1)
		case *types.Array:
			return has(u.Elem(), depth+1)
		case *types.Map:
			return has(u.Elem(), depth+1) || has(u.Key(), depth+1)
		}
		return false
	}
	if r := sig.Recv(); r != nil && has(r.Type(), 0) {
		return true
	}
	for i := 0; i < sig.Params().Len(); i++ {
		if has(sig.Params().At(i).Type(), 0) {
			return true
		}
	}
	return false
}

// internalIface: error, ucfg.Error, or an unexported interface of the module (value, field, varEvaler, ...):
// every implementation is module code that holds no reflect handle.
func internalIface(t types.Type) bool {
	u, ok := t.Underlying().(*types.Interface)
	if !ok {
		return false
	}
	if u.NumMethods() == 1 && u.Method(0).Name() == "Error" {
		return true
	}
	if n, ok := t.(*types.Named); ok && n.Obj().Pkg() != nil && strings.HasPrefix(n.Obj().Pkg().Path(), modPrefix) {
		return !n.Obj().Exported() || n.Obj().Name() == "Error"
	}
	return false
}

func (v *fnVC) rvEffect(con *Contract, env *Env, pkg, key string, callee *ssa.Function, c *ssa.CallCommon) {
	if !v.usesRV {
		return
	}
	v.memSrt[rvMem] = "Int"
	havoc := func() { v.cur[rvMem] = v.newConst(rvMem, "(Array Int Int)") }
	switch {
	case con != nil && con.RvWrites != nil:
		for _, it := range con.RvWrites {
			switch it {
			case "nothing":
			case "*":
				havoc()
			default:
				e, err := parseExpr(it)
				if err != nil {
					panic(fmt.Sprintf("rvwrites %q: %v", it, err))
				}
				t, _ := v.tr(e, env)
				v.setMem(rvMem, sto(v.memOrEntry(rvMem), t, v.newConst("rvver", "Int")))
			}
		}
		v.notes = append(v.notes, "assume (rvwrites): "+key+" writes reflect storage only at: "+strings.Join(con.RvWrites, ", "))
	case callee != nil && len(callee.FreeVars) == 0 && !handlesReflect(callee.Signature):
		// a function that is given no reflect handle, user-implementable interface value or function value
		// (directly or as a field or element of a by-value parameter) has nothing to write reflect storage through
	case c != nil && c.IsInvoke() && internalIface(c.Value.Type()) && !handlesReflect(c.Signature()):
		// a method of an interface that only this module implements (or of error), same condition
		// a function that is given no reflect handle, interface value or function value (directly or as a field or
		// element of a by-value parameter) has nothing to write reflect storage through
	case pkg == "reflect" && !(strings.Contains(key, ").Set") || key == "Copy"):
		// reflect functions other than the setters do not write through the handles
	case con != nil && con.Extern && pkg != "reflect":
		// other external functions do not write through reflect handles
	default:
		havoc()
	}
}

func (v *fnVC) deferSite(d *ssa.Defer) {
	k := len(v.defers)
	v.defers = append(v.defers, d)
	v.memSrt[deferMem] = "Bool"
	cur, ok := v.cur[deferMem]
	if !ok {
		cur = v.mem0(deferMem)
	}
	v.setMem(deferMem, sto(cur, intLit(int64(k)), "true"))
}

func (v *fnVC) runDefers(r *ssa.RunDefers) {
	v.memSrt[deferMem] = "Bool"
	// all defer sites of the function, in reverse static order (sites inside loops are rejected)
	var sites []*ssa.Defer
	for _, b := range v.fn.Blocks {
		for _, in := range b.Instrs {
			if d, ok := in.(*ssa.Defer); ok {
				sites = append(sites, d)
				for _, li := range v.loops {
					if li.body[b] {
						v.unsupported = append(v.unsupported, "defer inside a loop")
					}
				}
			}
		}
	}
	for i := len(sites) - 1; i >= 0; i-- {
		d := sites[i]
		k := -1
		for j, x := range v.defers {
			if x == d {
				k = j
			}
		}
		if k < 0 {
			continue // site not yet executed on any path reaching here
		}
		if d.Block() != v.blk && !v.anc[v.blk][d.Block()] {
			continue // the defer statement is not on any path to this return
		}
		cur, ok := v.cur[deferMem]
		if !ok {
			cur = v.mem0(deferMem)
		}
		armed := sel(cur, intLit(int64(k)))
		v.applyCall(&d.Call, nil, d.Pos(), armed)
	}
}

func (v *fnVC) call(x *ssa.Call) {
	c := &x.Call
	if b, ok := c.Value.(*ssa.Builtin); ok {
		v.builtin(x, b)
		return
	}
	v.applyCall(c, x, x.Pos(), "true")
}

// applyCall applies the callee contract; cond guards the call (deferred calls run only if armed).
func (v *fnVC) applyCall(c *ssa.CallCommon, x *ssa.Call, pos token.Pos, cond T) {
	pkg, key, callee := v.calleeKey(c)
	var bindings []ssa.Value
	if mc, ok := v.closures[c.Value]; ok {
		callee = mc.Fn.(*ssa.Function)
		pkg, key = callee.Pkg.Pkg.Path(), callee.RelString(callee.Pkg.Pkg)
		bindings = mc.Bindings
	}
	saveReach := v.reach[v.blk]
	if cond != "true" {
		v.reach[v.blk] = and(saveReach, cond)
		defer func() { v.reach[v.blk] = saveReach }()
	}
	before := copyMap(v.cur)
	con := v.e.spec.Contracts[pkg+"::"+key]
	var args []ssa.Value
	if c.IsInvoke() {
		args = append([]ssa.Value{c.Value}, c.Args...)
		v.oblige("rte.nil", "invoke "+c.Method.Name(), not(eq(v.val(c.Value), "(mkI 0 0)")), pos)
	} else {
		args = c.Args
	}
	sig := c.Signature()
	nres := sig.Results().Len()
	v.memSrt[allocMem] = "Bool"
	allocBefore := v.memOrEntry(allocMem)
	v.allocGrow()
	results := make([]T, nres)
	rname := "defer"
	if x != nil {
		rname = x.Name()
	}
	for i := 0; i < nres; i++ {
		rt := sig.Results().At(i).Type()
		results[i] = v.newConst("r_"+rname, v.P.sortOf(rt))
		v.assume(v.rangeFact(results[i], rt))
	}
	if x != nil {
		if nres == 1 {
			v.vals[x] = results[0]
		} else if nres > 1 {
			v.tuples[x] = results
		}
	}
	defer func() {
		if cond == "true" {
			return
		}
		// not armed: state unchanged
		v.reach[v.blk] = saveReach
		for m, t := range v.cur {
			old, ok := before[m]
			if !ok {
				old = v.mem0(m)
			}
			if old != t {
				v.assume(implies(and(saveReach, not(cond)), eq(t, old)))
			}
		}
	}()
	if con == nil && callee == nil && !c.IsInvoke() {
		// dynamically called function value (callback, loader, resolver, option): its results are an
		// uninterpreted function of the function value and the arguments; assumed not to touch modelled state
		// a callee that receives a reference (pointer, slice, map, interface, function) may write through it: the
		// heap is havoc'd (private cells survive); with scalar and string arguments only, it is assumed not to
		// touch library state
		v.rvEffect(nil, nil, "", "dynamic call", nil, c)
		refArg := false
		for _, a := range c.Args {
			switch a.Type().Underlying().(type) {
			case *types.Pointer, *types.Slice, *types.Map, *types.Interface, *types.Signature, *types.Chan:
				refArg = true
			}
		}
		if refArg && v.con != nil && v.con.DynPure {
			refArg = false
			v.notes = append(v.notes, "assume (dynpure): the callbacks this function calls ("+c.Value.Name()+") do not modify library state")
		}
		if refArg {
			if _, claimed := v.frameAlts("0"); claimed {
				v.oblige("frame.call", "dynamic call of "+c.Value.Name()+" with reference arguments", "false", pos)
			}
			v.havocAll("dynamic call with reference arguments: " + c.Value.Name())
		} else {
			v.notes = append(v.notes, "assume: dynamically called function value "+c.Value.Name()+" (scalar/string arguments) does not modify library state (results = dyn(f, args))")
		}
		var as []T
		var sorts []string
		as = append(as, v.val(c.Value))
		sorts = append(sorts, "Int")
		for _, a := range c.Args {
			as = append(as, v.val(a))
			sorts = append(sorts, v.P.sortOf(a.Type()))
		}
		for i := 0; i < nres; i++ {
			fn := v.dynFn(i, sorts, v.P.sortOf(sig.Results().At(i).Type()))
			v.assume(implies(v.reach[v.blk], eq(results[i], app(fn, as...))))
		}
		return
	}
	if con == nil {
		if (callee != nil && callee.Pkg != nil && strings.HasPrefix(callee.Pkg.Pkg.Path(), modPrefix)) || c.IsInvoke() || callee == nil || pkg == "reflect" {
			v.rvEffect(nil, nil, pkg, key, callee, c)
		}
		inMod := callee != nil && callee.Pkg != nil && strings.HasPrefix(callee.Pkg.Pkg.Path(), modPrefix)
		extIface := c.IsInvoke() && pkg != "" && !strings.HasPrefix(pkg, modPrefix) // method of an external interface (reflect.Type, ...)
		if (c.IsInvoke() && !extIface) || inMod || (callee == nil && !c.IsInvoke()) {
			if _, claimed := v.frameAlts("0"); claimed {
				v.oblige("frame.call", key+" has no contract", "false", pos)
			}
			v.havocAll("call without contract: " + key)
		} else {
			v.notes = append(v.notes, "assume: external call "+pkg+"."+key+" is pure (havoc result)")
		}
		return
	}
	v.usedContracts[pkg+"::"+key] = true
	// environment
	v.memSrt[allocMem] = "Bool"
	env := &Env{vars: map[string]bind{}, old: copyMap(v.cur), pkg: v.e.typesPkg(pkg), allocEntry: allocBefore}
	names := con.Params
	if len(names) == 0 && callee != nil {
		for _, p := range callee.Params {
			names = append(names, p.Name())
		}
	}
	for i, a := range args {
		if i < len(names) && names[i] != "_" && names[i] != "" {
			env.vars[names[i]] = bind{v.val(a), a.Type()}
		}
	}
	if callee != nil {
		for i, fv := range callee.FreeVars {
			if i < len(bindings) {
				env.vars[fv.Name()] = bind{v.val(bindings[i]), fv.Type()}
			}
		}
	}
	for _, r := range con.Requires {
		t, _ := v.tr(r.E, env)
		if con.Extern {
			// a violated precondition of a library function is a run-time error (reflect panics, ...)
			v.oblige("rte.extern@"+key, r.Text, t, pos)
		} else {
			v.oblige("pre@"+key, r.Text, t, pos)
		}
	}
	if v.con != nil {
		atc := v.con.AtCall[key]
		if x != nil {
			// at-call <callee>#<n>: only the n-th call of that callee in this function, in source order
			atc = append(append([]Clause{}, atc...), v.con.AtCall[fmt.Sprintf("%s#%d", key, v.callOrdinal(key, x))]...)
		}
		for _, r := range atc {
			// caller(x): the caller's variable x as it is at this call
			env.callerNames = v.namesAt(v.blk)
			if x != nil {
				for _, in := range v.blk.Instrs {
					if in == ssa.Instruction(x) {
						break
					}
					if dr, ok := in.(*ssa.DebugRef); ok && !dr.IsAddr {
						if obj := drObject(dr); obj != nil {
							if vr, ok := obj.(*types.Var); !ok || !vr.IsField() {
								env.callerNames[obj.Name()] = dr.X
							}
						}
					}
				}
			}
			t, _ := v.tr(r.E, env)
			v.oblige("at-call@"+key, r.Text, t, pos)
		}
	}
	v.rvEffect(con, env, pkg, key, callee, c)
	// frame
	if len(con.Modifies) > 0 {
		v.calleeFrameCheck(con, env, key, pos)
		v.applyModifies(con, env)
	} else if !con.Pure && !con.Extern {
		// no modifies clause: treated as modifies nothing only if declared pure; otherwise havoc - and a caller
		// that claims a frame cannot rely on it
		if _, claimed := v.frameAlts("0"); claimed {
			v.oblige("frame.call", key+" claims no frame", "false", pos)
		}
		v.havocAll("contract without modifies/pure: " + key)
	}
	rnames := con.Results
	if len(rnames) == 0 && callee != nil {
		for i := 0; i < nres; i++ {
			n := sig.Results().At(i).Name()
			rnames = append(rnames, n)
		}
	}
	v.bindResults(env, rnames, results, sig.Results())
	for _, e := range con.Ensures {
		t, _ := v.tr(e.E, env)
		v.assume(implies(v.reach[v.blk], t))
	}
}

func (v *fnVC) bindResults(env *Env, rnames []string, results []T, tup *types.Tuple) {
	for i, r := range results {
		ty := tup.At(i).Type()
		if i < len(rnames) && rnames[i] != "" && rnames[i] != "_" {
			env.vars[rnames[i]] = bind{r, ty}
		}
		env.vars[fmt.Sprintf("result%d", i)] = bind{r, ty}
		if len(results) == 1 {
			env.vars["result"] = bind{r, ty}
		}
		if i == len(results)-1 {
			if _, ok := env.vars["err"]; !ok && types.TypeString(ty, nil) != "" {
				if _, isIface := ty.Underlying().(*types.Interface); isIface {
					env.vars["err"] = bind{r, ty}
				}
			}
		}
		if i == 0 && len(results) == 2 {
			if _, ok := env.vars["result"]; !ok {
				env.vars["result"] = bind{r, ty}
			}
		}
	}
}

// calleeFrameCheck: everything the callee may modify must be fresh or inside the caller's frame.
func (v *fnVC) calleeFrameCheck(con *Contract, env *Env, key string, pos token.Pos) {
	if _, claimed := v.frameAlts("0"); !claimed {
		return
	}
	for _, m := range con.Modifies {
		switch {
		case m == "nothing":
		case m == "*":
			v.oblige("frame.call", key+" modifies *", "false", pos)
		case strings.HasPrefix(m, "map("):
			ex, _ := parseExpr(m[4 : len(m)-1])
			t, _ := v.tr(ex, env)
			if alts, ok := v.frameAlts(t); ok {
				// a nil map is never written (the callee allocates a new one)
				v.oblige("frame.store", key+": "+m, or(append([]T{eq(t, "0")}, alts...)...), pos)
			}
		case strings.HasPrefix(m, "tree("):
			ex, _ := parseExpr(m[5 : len(m)-1])
			t, _ := v.tr(ex, env)
			v.frameCheckTree(t, key+": "+m, pos)
		case strings.HasPrefix(m, "obj("):
			// the callee may write any field of that object: it must be fresh or inside the caller's frame as a whole
			ex, _ := parseExpr(m[4 : len(m)-1])
			t, ty := v.tr(ex, env)
			ref := v.refOf(t, ty)
			if alts, ok := v.frameAlts(ref); ok {
				myObj := []T{}
				envE := v.entryEnv()
				envE.useEntryOld, envE.inOld, envE.old = true, true, map[string]T{}
				for _, mm := range v.con.Modifies {
					if strings.HasPrefix(mm, "obj(") {
						ex2, _ := parseExpr(mm[4 : len(mm)-1])
						t2, ty2 := v.tr(ex2, envE)
						myObj = append(myObj, eq(ref, v.refOf(t2, ty2)))
					}
				}
				v.P.add("inTree", inTreeDecl)
				_ = alts
				v.memSrt[allocMem] = "Bool"
				goal := append(myObj, eq(ref, "0"), not(sel(v.mem0(allocMem), ref)))
				for _, mm := range v.con.Modifies {
					if strings.HasPrefix(mm, "tree(") {
						ex2, _ := parseExpr(mm[5 : len(mm)-1])
						t2, _ := v.tr(ex2, envE)
						goal = append(goal, app("inTree", t2, ref))
					}
				}
				v.oblige("frame.call", key+": "+m, or(goal...), pos)
			}
		case strings.HasPrefix(m, "cell("):
			ex, _ := parseExpr(m[5 : len(m)-1])
			t, ty := v.tr(ex, env)
			if pt, ok := ty.Underlying().(*types.Pointer); ok {
				for _, leaf := range v.leafAddrs(t, pt.Elem()) {
					v.frameCheck(leaf, key+": "+m, pos)
				}
			}
		case strings.HasPrefix(m, "elems("):
			ex, _ := parseExpr(m[6 : len(m)-1])
			t, _ := v.tr(ex, env)
			if alts, ok := v.frameAlts(v.elemAddr(app("sbase", t), "0")); ok {
				// the elements of a nil slice are no locations at all
				v.oblige("frame.store", key+": "+m, or(append([]T{eq(app("sbase", t), "0")}, alts...)...), pos)
			}
		default:
			ex, _ := parseExpr(m)
			a, ty := v.lvalue(ex, env)
			for _, leaf := range v.leafAddrs(a, ty) {
				v.frameCheck(leaf, key+": "+m, pos)
			}
		}
	}
}

func copyMap(m map[string]T) map[string]T {
	o := map[string]T{}
	for k, v := range m {
		o[k] = v
	}
	return o
}

// applyModifies havocs the memories named by the modifies items with a frame fact.
func (v *fnVC) applyModifies(con *Contract, env *Env) {
	beforeAll := copyMap(v.cur)
	type item struct {
		mem  string
		pred func(a T) T
	}
	var items []item
	for _, m := range con.Modifies {
		if m == "nothing" {
			continue
		}
		if m == "*" {
			v.havocAll("modifies *")
			return
		}
		if strings.HasPrefix(m, "map(") {
			e, err := parseExpr(m[4 : len(m)-1])
			if err != nil {
				panic(err)
			}
			t, ty := v.tr(e, env)
			md, mv, _, _ := v.mapMems(ty.Underlying().(*types.Map))
			tt := t
			items = append(items, item{md, func(a T) T { return eq(a, tt) }}, item{mv, func(a T) T { return eq(a, tt) }})
			continue
		}
		if strings.HasPrefix(m, "tree(") {
			e, err := parseExpr(m[5 : len(m)-1])
			if err != nil {
				panic(err)
			}
			t, _ := v.tr(e, env)
			v.P.add("inTree", inTreeDecl)
			var ks []string
			for k := range v.memSrt {
				// ghost state (allocation set, armed defers, visited keys) and non-escaping locals are not heap objects
				if k != allocMem && k != deferMem && k != visMem && k != rvMem && !strings.HasPrefix(k, "L_") {
					ks = append(ks, k)
				}
			}
			sort.Strings(ks)
			for _, k := range ks {
				tt := t
				// the callee's tree(t) is the tree at the time of the call. For a root that existed when the caller
				// started it is taken to be the caller's entry-state tree of t (assumption, stated in the evidence: the
				// caller does not link objects it allocated under a pre-existing subtree that it later hands to a
				// tree-modifying callee). For a root the caller allocated itself, inTree (an entry-state notion) is
				// empty, and the callee may write any object allocated since the caller started.
				a0 := v.mem0(allocMem)
				items = append(items, item{k, func(a T) T {
					return or(app("inTree", tt, app("root", a)), and(not(eq(tt, "0")), not(sel(a0, tt)), not(sel(a0, app("root", a)))))
				}})
			}
			continue
		}
		if strings.HasPrefix(m, "obj(") {
			e, err := parseExpr(m[4 : len(m)-1])
			if err != nil {
				panic(err)
			}
			t, ty := v.tr(e, env)
			ref := v.refOf(t, ty)
			var ks []string
			for k := range v.memSrt {
				if k != allocMem && k != deferMem && k != visMem && k != rvMem && !strings.HasPrefix(k, "L_") && !strings.HasPrefix(k, "MD_") && !strings.HasPrefix(k, "MV_") {
					ks = append(ks, k)
				}
			}
			sort.Strings(ks)
			for _, k := range ks {
				items = append(items, item{k, func(a T) T { return and(eq(app("root", a), ref), not(eq(app("akind", a), "(- 1)"))) }})
			}
			continue
		}
		if strings.HasPrefix(m, "cell(") {
			e, err := parseExpr(m[5 : len(m)-1])
			if err != nil {
				panic(err)
			}
			t, ty := v.tr(e, env)
			pt := ty.Underlying().(*types.Pointer)
			for _, lp := range v.leafPaths(pt.Elem()) {
				ad := lp.wrap(t)
				items = append(items, item{lp.mem, func(a T) T { return eq(a, ad) }})
			}
			continue
		}
		if strings.HasPrefix(m, "elems(") {
			e, err := parseExpr(m[6 : len(m)-1])
			if err != nil {
				panic(err)
			}
			t, ty := v.tr(e, env)
			et := ty.Underlying().(*types.Slice).Elem()
			ms := map[string]bool{}
			v.leafSorts(et, ms)
			for k := range ms {
				base := app("sbase", t)
				items = append(items, item{k, func(a T) T { return and(eq(app("akind", a), "(- 1)"), eq(app("ebase", a), base)) }})
			}
			continue
		}
		// x.f : field location
		e, err := parseExpr(m)
		if err != nil {
			panic(err)
		}
		addr, ty := v.lvalue(e, env)
		ms := map[string]bool{}
		v.leafSorts(ty, ms)
		if _, st, ok := v.isModStruct(ty); ok && st != nil {
			// struct-typed location: every nested field address; approximate by havoc of the leaf memories entirely
			for k := range ms {
				items = append(items, item{k, func(a T) T { return "true" }})
			}
			continue
		}
		for k := range ms {
			ad := addr
			items = append(items, item{k, func(a T) T { return eq(a, ad) }})
		}
	}
	byMem := map[string][]func(T) T{}
	for _, it := range items {
		byMem[it.mem] = append(byMem[it.mem], it.pred)
	}
	var ks []string
	for k := range byMem {
		ks = append(ks, k)
	}
	sort.Strings(ks)
	for _, k := range ks {
		old := v.cur[k]
		if old == "" {
			old = v.mem0(k)
		}
		nm := v.newConst(k, fmt.Sprintf("(Array Int %s)", v.memSrt[k]))
		var in []T
		for _, p := range byMem[k] {
			in = append(in, p("a"))
		}
		v.assume(fmt.Sprintf("(forall ((a Int)) (! (=> (not %s) (= (select %s a) (select %s a))) :pattern ((select %s a))))", or(in...), nm, old, nm))
		v.cur[k] = nm
	}
	// frame items are field locations, maps, backing arrays or configuration trees: never the private cell
	// of one of this function's variables (stated as ground facts so that no quantifier reasoning is needed)
	v.keepPrivateCells(beforeAll)
}

func (v *fnVC) builtin(x *ssa.Call, b *ssa.Builtin) {
	args := x.Call.Args
	switch b.Name() {
	case "len", "cap":
		a := v.val(args[0])
		switch u := args[0].Type().Underlying().(type) {
		case *types.Slice:
			if b.Name() == "len" {
				v.define(x, app("slen_", a))
			} else {
				v.define(x, app("scap", a))
			}
		case *types.Basic:
			v.define(x, app("slen", a))
		case *types.Array:
			v.define(x, intLit(u.Len()))
		case *types.Map:
			v.define(x, v.mapLen(a, u, nil))
		default:
			v.havoc(x)
		}
	case "copy":
		dst, src := v.val(args[0]), v.val(args[1])
		if isString(args[1].Type()) {
			v.unsupported = append(v.unsupported, "copy from string")
			v.havoc(x)
			return
		}
		et := args[0].Type().Underlying().(*types.Slice).Elem()
		n := v.newConst("copyn", "Int")
		v.assume(eq(n, ite(app("<", app("slen_", dst), app("slen_", src)), app("slen_", dst), app("slen_", src))))
		v.frameCheck(v.elemAddr(app("sbase", dst), "0"), "copy into "+args[0].Name(), x.Pos())
		for _, lp := range v.leafPaths(et) {
			old := v.memOrEntry(lp.mem)
			nm := v.newConst(lp.mem, fmt.Sprintf("(Array Int %s)", v.memSrt[lp.mem]))
			e := lp.unwrap("a")
			written := fmt.Sprintf("(and (= %[4]s a) (= (ebase %[3]s) (sbase %[1]s)) (<= (soff %[1]s) (eidx %[3]s)) (< (eidx %[3]s) (+ (soff %[1]s) %[2]s)) (= %[3]s (elem (ebase %[3]s) (eidx %[3]s))))", dst, n, e, lp.wrap(e))
			srcAddr := lp.wrap(fmt.Sprintf("(elem (sbase %[1]s) (+ (soff %[1]s) (- (eidx %[3]s) (soff %[2]s))))", src, dst, e))
			v.needInverseAxioms(lp)
			v.assume(fmt.Sprintf("(forall ((a Int)) (! (= (select %s a) (ite %s (select %s %s) (select %s a))) :pattern ((select %s a))))", nm, written, old, srcAddr, old, nm))
			v.cur[lp.mem] = nm
		}
		v.define(x, n)
	case "append":
		// result modelled as a fresh backing array holding old ++ new (capacity aliasing abstracted; noted)
		s := v.val(args[0])
		v.notes = append(v.notes, "append: result modelled as a fresh backing array; the in-place case is covered for frames by the frame.append obligation, content aliasing between argument and result is abstracted")
		et := args[0].Type().Underlying().(*types.Slice).Elem()
		nb := v.newConst("app", "Int")
		v.assume(app(">", nb, "0"))
		v.distinctFromAllocs(nb)
		var addLen T = "0"
		var more T
		if len(args) > 1 {
			more = v.val(args[1])
			if isString(args[1].Type()) {
				v.unsupported = append(v.unsupported, "append string")
				v.havoc(x)
				return
			}
			addLen = app("slen_", more)
		}
		nl := app("+", app("slen_", s), addLen)
		if len(args) > 1 {
			// Go appends in place when the capacity allows it: the cells behind len(s) of s's backing array are
			// written then. Where the function claims a frame, that backing array has to be writable under it
			// (fresh, or named by the modifies clause) unless the append provably reallocates (nil slice, no
			// spare capacity) or appends nothing. The *result* is still modelled as a fresh backing array.
			v.P.add("elemAxiom", "(assert (forall ((b Int) (i Int)) (! (and (= (ebase (elem b i)) b) (= (eidx (elem b i)) i) (= (akind (elem b i)) (- 1)) (= (root (elem b i)) (root b))) :pattern ((elem b i)))))")
			spare := fmt.Sprintf("(elem (sbase %s) %s)", s, v.ix(app("soff", s), app("slen_", s)))
			if alts, ok := v.frameAlts(spare); ok {
				alts = append(alts, app("<=", addLen, "0"), eq(app("sbase", s), "0"), app(">", nl, app("scap", s)))
				v.oblige("frame.append", "append may write into the spare capacity of its first argument", or(alts...), x.Pos())
			}
		}
		for _, lp := range v.leafPaths(et) {
			old := v.memOrEntry(lp.mem)
			nm := v.newConst(lp.mem, fmt.Sprintf("(Array Int %s)", v.memSrt[lp.mem]))
			v.P.add("elemAxiom", "(assert (forall ((b Int) (i Int)) (! (and (= (ebase (elem b i)) b) (= (eidx (elem b i)) i) (= (akind (elem b i)) (- 1)) (= (root (elem b i)) (root b))) :pattern ((elem b i)))))")
			// contents, by index
			v.assume(fmt.Sprintf("(forall ((i Int)) (! (=> (and (<= 0 i) (< i (slen_ %[1]s))) (= (select %[2]s %[3]s) (select %[4]s %[5]s))) :pattern ((select %[2]s %[3]s))))", s, nm, lp.wrap(fmt.Sprintf("(elem %s i)", nb)), old, lp.wrap(fmt.Sprintf("(elem (sbase %[1]s) %[2]s)", s, v.ix(app("soff", s), "i")))))
			if more != "" {
				v.assume(fmt.Sprintf("(forall ((i Int)) (! (=> (and (<= 0 i) (< i (slen_ %[1]s))) (= (select %[2]s %[3]s) (select %[4]s %[5]s))) :pattern ((select %[2]s %[3]s))))", more, nm, lp.wrap(fmt.Sprintf("(elem %s (+ (slen_ %s) i))", nb, s)), old, lp.wrap(fmt.Sprintf("(elem (sbase %[1]s) %[2]s)", more, v.ix(app("soff", more), "i")))))
			}
			// frame: nothing outside the new backing array changes
			v.needInverseAxioms(lp)
			e := lp.unwrap("a")
			v.assume(fmt.Sprintf("(forall ((a Int)) (! (=> (not (and (= %[5]s a) (= (ebase %[4]s) %[3]s) (= %[4]s (elem (ebase %[4]s) (eidx %[4]s))))) (= (select %[1]s a) (select %[2]s a))) :pattern ((select %[1]s a))))", nm, old, nb, e, lp.wrap(e)))
			v.cur[lp.mem] = nm
		}
		cp := v.newConst("cap", "Int")
		v.assume(and(app(">=", cp, nl), app("<=", cp, "9223372036854775807")))
		v.define(x, app("mkS", nb, "0", nl, cp))
	case "delete":
		mt := args[0].Type().Underlying().(*types.Map)
		md, _, _, _ := v.mapMems(mt)
		m, k := v.val(args[0]), v.val(args[1])
		v.frameCheck(m, "delete", x.Pos())
		v.setMem(md, sto(v.memOrEntry(md), m, sto(sel(v.memOrEntry(md), m), k, "false")))
	case "close":
		// channel close: not modelled
	case "panic":
		v.oblige("rte.panic", "panic", "false", x.Pos())
	default:
		v.unsupported = append(v.unsupported, "builtin "+b.Name())
		if x.Type() != nil {
			if _, ok := x.Type().(*types.Tuple); !ok {
				v.havoc(x)
			}
		}
	}
}

// ---------------------------------------------------------------- returns

func (v *fnVC) ret(x *ssa.Return) {
	if v.con == nil {
		return
	}
	env := v.entryEnv()
	env.old = map[string]T{} // entry snapshot = defaults
	env.useEntryOld = true
	sig := v.fn.Signature
	var results []T
	for _, r := range x.Results {
		results = append(results, v.val(r))
	}
	var rnames []string
	for i := 0; i < sig.Results().Len(); i++ {
		rnames = append(rnames, sig.Results().At(i).Name())
	}
	if len(v.con.Results) > 0 {
		rnames = v.con.Results
	}
	v.bindResults(env, rnames, results, sig.Results())
	// path splitting: at a merge block, prove the postcondition separately per incoming edge
	var edges []T
	if len(v.blk.Preds) > 1 && v.loops[v.blk] == nil {
		for _, p := range v.blk.Preds {
			if !v.isBack[[2]*ssa.BasicBlock{p, v.blk}] && v.reach[p] != "" {
				edges = append(edges, v.edgeCond(p, v.blk))
			}
		}
	}
	for i, e := range v.con.Ensures {
		t, _ := v.tr(e.E, env)
		name := e.Name
		if name == "" {
			name = fmt.Sprintf("%d", i+1)
		}
		cl := v.con.Ensures[i]
		cl.Name = name
		v.curClause = &cl
		if len(edges) > 1 {
			save := v.reach[v.blk]
			for _, ec := range edges {
				v.reach[v.blk] = and(save, ec)
				v.oblige("post."+name, e.Text, t, x.Pos())
			}
			v.reach[v.blk] = save
			v.curClause = nil
			continue
		}
		v.oblige("post."+name, e.Text, t, x.Pos())
		v.curClause = nil
	}
}

func (v *fnVC) entryEnv() *Env {
	env := &Env{vars: map[string]bind{}, pkg: v.fn.Pkg.Pkg}
	for i, p := range v.fn.Params {
		env.vars[p.Name()] = bind{v.vals[p], p.Type()}
		if v.con != nil && i < len(v.con.Params) && v.con.Params[i] != "_" && v.con.Params[i] != "" {
			env.vars[v.con.Params[i]] = bind{v.vals[p], p.Type()} // the contract's own names for the parameters
		}
	}
	for _, fv := range v.fn.FreeVars {
		env.vars[fv.Name()] = bind{v.val(fv), fv.Type()}
	}
	return env
}

// ---------------------------------------------------------------- loops

func (v *fnVC) loopSpec(li *loopInfo) *LoopSpec {
	if v.con == nil {
		return &LoopSpec{}
	}
	if ls := v.con.Loops[li.ordinal]; ls != nil {
		return ls
	}
	return &LoopSpec{}
}

// namesAt collects source-name bindings visible at the head of block b.
func (v *fnVC) namesAt(b *ssa.BasicBlock) map[string]ssa.Value {
	out := map[string]ssa.Value{}
	// walk dominators from entry down to b's idom chain
	var chain []*ssa.BasicBlock
	for d := b.Idom(); d != nil; d = d.Idom() {
		chain = append(chain, d)
	}
	for i := len(chain) - 1; i >= 0; i-- {
		for _, in := range chain[i].Instrs {
			if al, ok := in.(*ssa.Alloc); ok && al.Comment != "" && al.Comment != "complit" && al.Comment != "varargs" && !strings.Contains(al.Comment, ".") {
				out["&"+al.Comment] = al // variable living in a cell (captured or address-taken)
			}
			if phi, ok := in.(*ssa.Phi); ok && phi.Comment != "" {
				out[phi.Comment] = phi // a merged variable: supersedes earlier definitions
			}
			if dr, ok := in.(*ssa.DebugRef); ok {
				if obj := drObject(dr); obj != nil {
					if vr, ok := obj.(*types.Var); ok && vr.IsField() {
						continue // a struct field selected in an expression, not a local variable
					}
					if dr.IsAddr {
						out["&"+obj.Name()] = dr.X
					} else {
						out[obj.Name()] = dr.X
					}
				}
			}
		}
	}
	return out
}

func collectIdents(e Expr, out map[string]bool) {
	switch x := e.(type) {
	case *Ident:
		out[x.Name] = true
	case *Unary:
		collectIdents(x.X, out)
	case *Binary:
		collectIdents(x.X, out)
		collectIdents(x.Y, out)
	case *CallE:
		for _, a := range x.Args {
			collectIdents(a, out)
		}
	case *Select:
		collectIdents(x.X, out)
	case *IndexE:
		collectIdents(x.X, out)
		collectIdents(x.I, out)
	case *Quant:
		collectIdents(x.Body, out)
	case *TypeAssertE:
		collectIdents(x.X, out)
	}
}

func (v *fnVC) loopHead(li *loopInfo, preds []*ssa.BasicBlock, conds []T) {
	b := li.header
	ls := v.loopSpec(li)
	// inferred interval invariant of a range-over-slice loop: the hidden index starts at -1 and only grows
	// (proved like any other invariant: entry and preservation obligations are generated for it)
	for _, in := range b.Instrs {
		phi, ok := in.(*ssa.Phi)
		if !ok {
			break
		}
		if phi.Comment != "" && phi.Comment != "rangeindex" && isInteger(phi.Type()) && len(phi.Edges) == 2 {
			// counting loop: i starts at a non-negative constant and is only incremented: 0 <= i (proved as an invariant)
			var init, step ssa.Value
			for k, p := range b.Preds {
				if v.isBack[[2]*ssa.BasicBlock{p, b}] {
					step = phi.Edges[k]
				} else {
					init = phi.Edges[k]
				}
			}
			ci, ok1 := init.(*ssa.Const)
			bo, ok2 := step.(*ssa.BinOp)
			if ok1 && ok2 && ci.Value != nil && bo.Op == token.ADD && bo.X == phi {
				if cs, ok := bo.Y.(*ssa.Const); ok && cs.Value != nil && ci.Int64() >= 0 && cs.Int64() > 0 {
					have := false
					for _, inv := range ls.Invariants {
						if strings.Contains(inv.Text, "<= "+phi.Comment) {
							have = true
						}
					}
					if !have {
						if ex, err := parseExpr("0 <= " + phi.Comment); err == nil {
							cp := &LoopSpec{Invariants: append([]Clause{{Text: "0 <= " + phi.Comment + " (inferred)", E: ex}}, ls.Invariants...), Decreases: ls.Decreases}
							ls = cp
							if v.con != nil {
								v.con.Loops[li.ordinal] = cp
							}
						}
					}
				}
			}
		}
		if phi.Comment == "rangeindex" {
			have := false
			for _, inv := range ls.Invariants {
				if strings.Contains(inv.Text, "<= rangeindex") {
					have = true
				}
			}
			if !have {
				ex, _ := parseExpr("-1 <= rangeindex && rangeindex < 9223372036854775807")
				cp := &LoopSpec{Invariants: append([]Clause{{Text: "-1 <= rangeindex && rangeindex < MaxInt64 (inferred)", E: ex}}, ls.Invariants...), Decreases: ls.Decreases}
				ls = cp
				if v.con != nil {
					v.con.Loops[li.ordinal] = cp
				}
			}
		}
	}
	v.loopNamesUsed = map[string]bool{}
	for _, c := range append(append([]Clause{}, ls.Invariants...), ls.Decreases...) {
		collectIdents(c.E, v.loopNamesUsed)
	}
	names := v.namesAt(b)
	// incoming phi values
	phiIn := map[*ssa.Phi]T{}
	var phis []*ssa.Phi
	for _, in := range b.Instrs {
		phi, ok := in.(*ssa.Phi)
		if !ok {
			break
		}
		phis = append(phis, phi)
		var t T
		first := true
		for i := len(phi.Edges) - 1; i >= 0; i-- {
			p := b.Preds[i]
			if v.isBack[[2]*ssa.BasicBlock{p, b}] || v.reach[p] == "" {
				continue
			}
			e := v.val(phi.Edges[i])
			if first {
				t, first = e, false
			} else {
				t = ite(v.edgeCond(p, b), e, t)
			}
		}
		phiIn[phi] = t
	}
	mkEnv := func(phiVal func(*ssa.Phi) T) *Env {
		env := v.entryEnv()
		env.useEntryOld = true
		env.old = map[string]T{}
		for n, val := range names {
			if strings.HasPrefix(n, "&") {
				continue
			}
			if _, inCell := names["&"+n]; inCell {
				continue // address-taken variable: its current value lives in its cell
			}
			env.vars[n] = bind{v.val(val), val.Type()}
		}
		for n, val := range names {
			if strings.HasPrefix(n, "&") {
				ptr, isPtr := val.Type().Underlying().(*types.Pointer)
				if !isPtr {
					continue
				}
				pt := ptr.Elem()
				env.addrVars = append(env.addrVars, addrVar{n[1:], v.val(val), pt, v.spaceOf(val)})
			}
		}
		for _, phi := range phis {
			if phi.Comment != "" {
				env.vars[phi.Comment] = bind{phiVal(phi), phi.Type()}
			}
		}
		// harmless renames: a name that no longer exists binds to the unique header phi that no
		// contract name refers to (any other situation stays a binding error)
		env.fallback = func(name string) (bind, bool) {
			var cands []*ssa.Phi
			for _, phi := range phis {
				if !v.loopNamesUsed[phi.Comment] {
					cands = append(cands, phi)
				}
			}
			if len(cands) == 1 {
				v.notes = append(v.notes, fmt.Sprintf("binding fallback: contract name %q bound to loop variable %q", name, cands[0].Comment))
				return bind{phiVal(cands[0]), cands[0].Type()}, true
			}
			return bind{}, false
		}
		return env
	}
	// 1. invariant on entry
	envIn := mkEnv(func(p *ssa.Phi) T { return phiIn[p] })
	for i, inv := range ls.Invariants {
		t, _ := v.tr(inv.E, envIn)
		v.oblige(fmt.Sprintf("inv.entry.loop%d.%d", li.ordinal, i+1), inv.Text, t, li.pos)
	}
	// 2. havoc modified state
	preMem := copyMap(v.cur)
	mod := map[string]bool{}
	all := false
	for blk := range li.body {
		for _, in := range blk.Instrs {
			switch x := in.(type) {
			case *ssa.Store:
				v.space = v.spaceOf(x.Addr)
				v.leafSorts(x.Val.Type(), mod)
				v.space = ""
			case *ssa.MakeSlice:
				v.leafSorts(x.Type().Underlying().(*types.Slice).Elem(), mod)
			case *ssa.Alloc:
				v.space = v.spaceOf(x)
				v.leafSorts(x.Type().Underlying().(*types.Pointer).Elem(), mod)
				v.space = ""
			case *ssa.MapUpdate:
				md, mv, _, _ := v.mapMems(x.Map.Type().Underlying().(*types.Map))
				mod[md], mod[mv] = true, true
			case *ssa.Next:
				if _, ok := v.memSrt[visMem]; ok {
					mod[visMem] = true
				}
			case *ssa.Call:
				if bi, ok := x.Call.Value.(*ssa.Builtin); ok {
					if bi.Name() == "append" || bi.Name() == "copy" {
						v.leafSorts(x.Call.Args[0].Type().Underlying().(*types.Slice).Elem(), mod)
					}
					continue
				}
				pkg, key, _ := v.calleeKey(&x.Call)
				con := v.e.spec.Contracts[pkg+"::"+key]
				switch {
				case con == nil:
					if x.Call.IsInvoke() || strings.HasPrefix(pkg, modPrefix) || pkg == "" {
						all = true
					}
				case con.Pure || (con.Extern && len(con.Modifies) == 0):
				default:
					// conservatively: every memory a modifies item may touch -> havoc those sorts
					all = all || len(con.Modifies) == 0
					for _, m := range con.Modifies {
						if m == "*" {
							all = true
						}
					}
					if !all {
						v.modSortsOfContract(con, x, mod)
					}
				}
			}
		}
	}
	if all {
		v.havocAll(fmt.Sprintf("loop %d contains an unframed call", li.ordinal))
	} else {
		var ks []string
		for k := range mod {
			ks = append(ks, k)
		}
		sort.Strings(ks)
		for _, k := range ks {
			v.cur[k] = v.newConst(k, fmt.Sprintf("(Array Int %s)", v.memSrt[k]))
		}
		v.loopFrame(ks)
		v.stableCells(li, preMem)
	}
	if v.usesRV {
		// reflect storage: unknown after an arbitrary number of iterations (the invariant says what is kept)
		v.memSrt[rvMem] = "Int"
		v.cur[rvMem] = v.newConst(rvMem, "(Array Int Int)")
	}
	v.allocGrow()
	for _, phi := range phis {
		v.havoc(phi)
	}
	// 3. assume invariant
	envH := mkEnv(func(p *ssa.Phi) T { return v.vals[p] })
	for _, inv := range ls.Invariants {
		t, _ := v.tr(inv.E, envH)
		v.assume(t)
	}
	li.variant0 = nil
	for _, d := range ls.Decreases {
		t, _ := v.tr(d.E, envH)
		c := v.newConst("variant", "Int")
		v.assume(eq(c, t))
		li.variant0 = append(li.variant0, c)
	}
	li.mkEnv = mkEnv
	li.phis = phis
}

func (v *fnVC) modSortsOfContract(con *Contract, x *ssa.Call, mod map[string]bool) {
	// approximate: resolve the static type of each modifies item from the callee signature
	callee := x.Call.StaticCallee()
	if callee == nil {
		for m := range v.memSrt {
			if m != allocMem && m != deferMem && m != visMem && m != rvMem && !strings.HasPrefix(m, "L_") {
				mod[m] = true
			}
		}
		return
	}
	env := &Env{vars: map[string]bind{}, pkg: callee.Pkg.Pkg}
	names := con.Params
	if len(names) == 0 {
		for _, p := range callee.Params {
			names = append(names, p.Name())
		}
	}
	for i, p := range callee.Params {
		if i < len(names) {
			env.vars[names[i]] = bind{"0", p.Type()}
		}
	}
	for _, m := range con.Modifies {
		if m == "nothing" {
			continue
		}
		if strings.HasPrefix(m, "map(") {
			e, _ := parseExpr(m[4 : len(m)-1])
			if ty := v.typeOnly(e, env); ty != nil {
				if mt, ok := ty.Underlying().(*types.Map); ok {
					md, mv, _, _ := v.mapMems(mt)
					mod[md], mod[mv] = true, true
				}
			}
			continue
		}
		if strings.HasPrefix(m, "tree(") {
			for k := range v.memSrt {
				if k != allocMem && k != deferMem && k != visMem && k != rvMem && !strings.HasPrefix(k, "L_") {
					mod[k] = true
				}
			}
			continue
		}
		if strings.HasPrefix(m, "obj(") {
			for k := range v.memSrt {
				if k != allocMem && k != deferMem && k != visMem && k != rvMem && !strings.HasPrefix(k, "L_") && !strings.HasPrefix(k, "MD_") && !strings.HasPrefix(k, "MV_") {
					mod[k] = true
				}
			}
			continue
		}
		if strings.HasPrefix(m, "cell(") {
			e, _ := parseExpr(m[5 : len(m)-1])
			if ty := v.typeOnly(e, env); ty != nil {
				if pt, ok := ty.Underlying().(*types.Pointer); ok {
					v.leafSorts(pt.Elem(), mod)
				}
			}
			continue
		}
		if strings.HasPrefix(m, "elems(") {
			e, _ := parseExpr(m[6 : len(m)-1])
			ty := v.typeOnly(e, env)
			if sl, ok := ty.Underlying().(*types.Slice); ok {
				v.leafSorts(sl.Elem(), mod)
			}
			continue
		}
		e, _ := parseExpr(m)
		ty := v.typeOnly(e, env)
		if ty != nil {
			v.leafSorts(ty, mod)
		}
	}
}

func (v *fnVC) backEdge(from, h *ssa.BasicBlock) {
	li := v.loops[h]
	ls := v.loopSpec(li)
	idx := -1
	for i, p := range h.Preds {
		if p == from {
			idx = i
		}
	}
	saveReach := v.reach[from]
	cond := v.edgeCond(from, h)
	env := li.mkEnv(func(p *ssa.Phi) T { return v.val(p.Edges[idx]) })
	// obligations at the end of `from` under the edge condition
	v.idx++
	v.reach[from] = cond
	for i, inv := range ls.Invariants {
		t, _ := v.tr(inv.E, env)
		v.oblige(fmt.Sprintf("inv.preserve.loop%d.%d", li.ordinal, i+1), inv.Text, t, li.pos)
	}
	for i, d := range ls.Decreases {
		t, _ := v.tr(d.E, env)
		v.oblige(fmt.Sprintf("dec.loop%d", li.ordinal), d.Text, and(app("<=", "0", li.variant0[i]), app("<", t, li.variant0[i])), li.pos)
	}
	v.reach[from] = saveReach
	_ = token.NoPos
}

func (v *fnVC) dynFn(i int, argSorts []string, resSort string) string {
	name := fmt.Sprintf("dyn%d_%s__%s", i, sanitize(strings.Join(argSorts[1:], "_")), sanitize(resSort))
	v.P.add(name, fmt.Sprintf("(declare-fun %s (%s) %s)", name, strings.Join(argSorts, " "), resSort))
	return name
}

// stableCells: the cell of a source variable that the loop body neither stores to, passes to a call,
// nor binds in a closure created inside the loop keeps the value it had before the loop (callee frames
// are explicit locations, maps, backing arrays or configuration trees, none of which can be such a cell).
// blockReaches: there is a control-flow path from a to b.
func blockReaches(a, b *ssa.BasicBlock) bool {
	seen := map[*ssa.BasicBlock]bool{}
	work := []*ssa.BasicBlock{a}
	for len(work) > 0 {
		x := work[len(work)-1]
		work = work[:len(work)-1]
		if x == b {
			return true
		}
		if seen[x] {
			continue
		}
		seen[x] = true
		work = append(work, x.Succs...)
	}
	return false
}

func (v *fnVC) stableCells(li *loopInfo, pre map[string]T) {
	rootOf := func(a ssa.Value) ssa.Value {
		for {
			switch x := a.(type) {
			case *ssa.FieldAddr:
				a = x.X
			case *ssa.IndexAddr:
				a = x.X
			default:
				return a
			}
		}
	}
	touched := map[ssa.Value]bool{}
	for blk := range li.body {
		for _, in := range blk.Instrs {
			switch x := in.(type) {
			case *ssa.Store:
				touched[rootOf(x.Addr)] = true
				touched[rootOf(x.Val)] = true
			case *ssa.Call:
				for _, a := range x.Call.Args {
					touched[rootOf(a)] = true
				}
				touched[rootOf(x.Call.Value)] = true
			case *ssa.Defer:
				for _, a := range x.Call.Args {
					touched[rootOf(a)] = true
				}
			case *ssa.MakeClosure:
				for _, b := range x.Bindings {
					touched[rootOf(b)] = true
				}
			case *ssa.MakeInterface:
				touched[rootOf(x.X)] = true
			case *ssa.Phi:
				for _, ed := range x.Edges {
					touched[rootOf(ed)] = true
				}
			}
		}
	}
	for _, ar := range v.allocs {
		if ar.alloc == nil || touched[ar.alloc] || li.body[ar.blk] || v.localOnly[ar.alloc] {
			continue
		}
		if !blockReaches(ar.blk, li.header) {
			continue // a variable of another branch (its cell does not exist on any path through this loop)
		}
		elem := ar.alloc.Type().Underlying().(*types.Pointer).Elem()
		for _, lp := range v.leafPaths(elem) {
			cur, ok := v.cur[lp.mem]
			old, ok2 := pre[lp.mem]
			if !ok {
				continue
			}
			if !ok2 {
				old = v.mem0(lp.mem)
			}
			if cur == old {
				continue
			}
			addr := lp.wrap(ar.t)
			v.assume(eq(sel(cur, addr), sel(old, addr)))
		}
	}
}

// mapLen: len(m) is the cardinality of the map's current domain (0 for a nil map); card = 0 exactly for
// the empty domain.
func (v *fnVC) mapLen(m T, mt *types.Map, snap map[string]T) T {
	md, _, ks, _ := v.mapMems(mt)
	fn := "card_" + sanitize(ks)
	v.P.add(fn, fmt.Sprintf("(declare-fun %[1]s ((Array %[2]s Bool)) Int)\n(assert (forall ((d (Array %[2]s Bool))) (! (and (>= (%[1]s d) 0) (<= (%[1]s d) 9223372036854775807)) :pattern ((%[1]s d)))))\n(assert (forall ((d (Array %[2]s Bool)) (k %[2]s)) (! (=> (= (%[1]s d) 0) (not (select d k))) :pattern ((%[1]s d) (select d k)))))\n(assert (= (%[1]s ((as const (Array %[2]s Bool)) false)) 0))", fn, ks))
	var mem T
	if snap != nil {
		if x, ok := snap[md]; ok {
			mem = x
		} else {
			mem = v.mem0(md)
		}
	} else {
		mem = v.memOrEntry(md)
	}
	return ite(eq(m, "0"), "0", app(fn, sel(mem, m)))
}

// callOrdinal numbers the calls of one callee inside the function under check in source order (1-based).
func (v *fnVC) callOrdinal(key string, x *ssa.Call) int {
	n := 1
	for _, b := range v.fn.Blocks {
		for _, in := range b.Instrs {
			ci, ok := in.(ssa.CallInstruction)
			if !ok || in == ssa.Instruction(x) {
				continue
			}
			if _, k, _ := v.calleeKey(ci.Common()); k == key && in.Pos() < x.Pos() {
				n++
			}
		}
	}
	return n
}
